// Batch wasm runner around the shipped runtime/wasm/runtime.js (copied next to this
// file as runtime.mjs by verif.sh).  One JSON request per stdin line:
//   {"id": 1, "wasm": "/path/out.wasm"}
// one JSON reply per line:
//   {"id": 1, "status": "ok"|"trap"|"linkerror"|"timeout"|"error", "msg": "...", "lines": [...]}
// Every module runs in its own worker thread with a fresh createFerretRuntime(), because
// a miscompiled loop cannot be interrupted from inside its own thread.
import { Worker } from "node:worker_threads";
import { createInterface } from "node:readline";
import { fileURLToPath } from "node:url";
import { dirname, join } from "node:path";

const here = dirname(fileURLToPath(import.meta.url));
const runtimePath = join(here, "runtime.mjs");

const workerSrc = `
const { parentPort, workerData } = require("node:worker_threads");
const { readFileSync } = require("node:fs");
const { pathToFileURL } = require("node:url");
(async () => {
  const lines = [];
  console.log = (...a) => { lines.push(a.join(" ")); };
  let status = "ok", msg = "";
  try {
    const { createFerretRuntime } = await import(pathToFileURL(workerData.runtime).href);
    const rt = createFerretRuntime();
    let instance;
    try {
      ({ instance } = await WebAssembly.instantiate(readFileSync(workerData.wasm), rt.imports));
    } catch (e) {
      parentPort.postMessage({ status: "linkerror", msg: String(e && e.message || e), lines });
      return;
    }
    rt.bind(instance);
    try {
      instance.exports.main();
    } catch (e) {
      status = "trap";
      msg = String(e && e.message || e);
    }
  } catch (e) {
    status = "error";
    msg = String(e && e.message || e);
  }
  parentPort.postMessage({ status, msg, lines });
})();
`;

function runOne(req) {
  return new Promise((resolve) => {
    let done = false;
    const w = new Worker(workerSrc, { eval: true, workerData: { wasm: req.wasm, runtime: runtimePath } });
    const timer = setTimeout(() => {
      if (done) return;
      done = true;
      w.terminate();
      resolve({ id: req.id, status: "timeout", msg: "", lines: [] });
    }, req.timeout_ms || 5000);
    w.on("message", (m) => {
      if (done) return;
      done = true;
      clearTimeout(timer);
      w.terminate();
      resolve({ id: req.id, ...m });
    });
    w.on("error", (e) => {
      if (done) return;
      done = true;
      clearTimeout(timer);
      resolve({ id: req.id, status: "error", msg: String(e && e.message || e), lines: [] });
    });
  });
}

const rl = createInterface({ input: process.stdin });
for await (const line of rl) {
  if (!line.trim()) continue;
  let req;
  try { req = JSON.parse(line); } catch { process.stdout.write(JSON.stringify({ id: -1, status: "error", msg: "bad request", lines: [] }) + "\n"); continue; }
  const rep = await runOne(req);
  process.stdout.write(JSON.stringify(rep) + "\n");
}
