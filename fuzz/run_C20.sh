#!/bin/bash
# thorough tier of C20: native Go fuzzing of the campaign property (see run_gofuzz.sh)
ID=C20 exec bash "$(dirname "$0")/run_gofuzz.sh"
