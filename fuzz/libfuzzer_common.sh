# shared by run_C16.sh / run_C17.sh: builds a libFuzzer target from cdrv/<name>_fuzz.c against the runtime
# sources of $REPO, runs it in fork mode under a wall-clock budget, converts the outcome into the
# driver's conventions (VIOLATION line + saved input, stats file for the evidence merge).
# expects: ID NAME SRCS (runtime sources) BUDGET MAXLEN ; env VERIF_S (scratch), VERIF_DIR, VERIF_REPO, VERIF_SEED
set -u
VERIF="${VERIF_DIR:-/verif}"; REPO="${VERIF_REPO:-/repo}"; S="${VERIF_S:?}"; SEED="${VERIF_SEED:-1}"
NPROC=$(nproc 2>/dev/null || echo 4); W=$((NPROC-2)); [ $W -lt 1 ] && W=1
F="$S/fuzz_$ID"; mkdir -p "$F/corpus" "$F/art"
R="$REPO/runtime"
clang -fsanitize=fuzzer,address,undefined -fno-sanitize-recover=undefined -fno-omit-frame-pointer -g -O1 -std=gnu99 -w \
  -I "$R/core" -I "$R/libs" -o "$F/target" "$VERIF/cdrv/${NAME}_fuzz.c" $SRCS -lm >"$F/build.log" 2>&1 || { cat "$F/build.log"; echo "libFuzzer target build failed"; exit 2; }
# replay tier of this engine: committed inputs must not fail
for f in "$VERIF"/replays/$ID/fuzz-*/input.bin; do
  [ -f "$f" ] || continue
  if ! "$F/target" "$f" >"$F/replay.log" 2>&1; then
    echo "VIOLATION property=$ID replay=$(dirname "$f")"; grep -m3 "MISMATCH\|ERROR" "$F/replay.log"; exit 1
  fi
done
t0=$(date +%s)
# W long-lived fuzzing processes sharing one corpus directory (fork mode would create a process per
# job slice, and process creation is the scarce resource in this sandbox)
( cd "$F" && timeout $((BUDGET+180)) ./target -jobs=$W -workers=$W -max_total_time=$BUDGET -seed=$SEED -max_len=$MAXLEN -reload=1 -print_final_stats=1 -artifact_prefix="$F/art/" corpus ) >"$F/run.log" 2>&1
rc=$?
t1=$(date +%s)
execs=0
for l in "$F"/fuzz-*.log; do
  [ -f "$l" ] || continue
  n=$(grep -o 'stat::number_of_executed_units: [0-9]*' "$l" | tail -1 | awk '{print $2}')
  [ -z "$n" ] && n=$(grep -o '^#[0-9]*' "$l" | tr -d '#' | sort -n | tail -1)
  execs=$((execs + ${n:-0}))
done
cov=$(cat "$F"/fuzz-*.log 2>/dev/null | grep -o 'cov: [0-9]*' | cut -d' ' -f2 | sort -n | tail -1); cov=${cov:-0}
ncorp=$(ls "$F/corpus" | wc -l)
crash=$(ls "$F/art" 2>/dev/null | head -1)
viol=0
if [ -n "$crash" ]; then
  # confirm outside fork mode, minimise a little, keep the input
  if ! "$F/target" "$F/art/$crash" >"$F/confirm.log" 2>&1; then
    viol=1
    key=$(grep -m1 -o "MISMATCH[^:]*: [a-z _/]*\|MISMATCH [a-z0-9]* [a-z_/]*\|ERROR: AddressSanitizer: [a-z-]*\|runtime error: [a-z ]*" "$F/confirm.log" | tr -c 'A-Za-z0-9\n' '_' | cut -c1-60)
    dst="$VERIF/found/$ID/fuzz-${key:-crash}-s$SEED"; rm -rf "$dst"; mkdir -p "$dst"
    cp "$F/art/$crash" "$dst/input.bin"; head -40 "$F/confirm.log" > "$dst/observed.txt"
    echo "{\"property\": \"$ID\", \"engine\": \"libfuzzer:${NAME}_fuzz\", \"note\": \"replay: ./verif.sh replay <this dir> rebuilds cdrv/${NAME}_fuzz.c and runs it on input.bin\"}" > "$dst/case.json"
    echo "VIOLATION property=$ID replay=$dst"
    grep -m4 "MISMATCH\|ERROR\| a \| b \| got\| want" "$F/confirm.log"
  fi
fi
cat > "$S/fuzz_stats.json" <<EOJ
{"evals": $execs, "nt_count": $execs, "labels": {"engine:libfuzzer": $execs}, "discards": {}, "excluded": {}, "infra": {}, "samples": [],
 "extra": {"libfuzzer_executions": $execs, "libfuzzer_edge_coverage": $cov, "libfuzzer_corpus_files": $ncorp, "libfuzzer_wall_s": $((t1-t0)), "libfuzzer_workers": $W}, "exhaustive": false, "requested": 0}
EOJ
[ $viol -eq 1 ] && exit 1
# a non-zero exit without an artifact is an engine problem (budget hit is rc 0)
if [ "$execs" -lt 1000 ]; then tail -5 "$F/run.log"; echo "libFuzzer executed almost nothing"; exit 2; fi
exit 0
