#!/bin/bash
# thorough tier of C18: native Go fuzzing of the campaign property (see run_gofuzz.sh)
ID=C18 exec bash "$(dirname "$0")/run_gofuzz.sh"
