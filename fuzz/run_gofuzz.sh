#!/bin/bash
# thorough tier, native Go fuzzing: drives the property's rapid generator with the fuzzing engine's byte
# strings (FuzzCampaign in harness/props/fuzz_test.go).  Coverage feedback comes from everything linked
# into the test binary: the compiler itself for C13 (in-process compilation), the TOML package for C20,
# the data-layout code for C18.  A budget hit is a normal end; a failing input is saved by the target in
# the usual case format and reported as a VIOLATION after it has been confirmed there.
# env: VERIF_S (scratch of the run), VERIF_H (harness copy), ID, VERIF_TOOLCHAIN, VERIF_SEED
set -u
ID="${ID:?}"; S="${VERIF_S:?}"; H="${VERIF_H:?}"; VERIF="${VERIF_DIR:-/verif}"; SEED="${VERIF_SEED:-1}"
BUDGET="${VERIF_FUZZ_BUDGET:-180}"
NPROC=$(nproc 2>/dev/null || echo 4); W=$((NPROC-2)); [ $W -lt 1 ] && W=1
F="$S/gofuzz"; mkdir -p "$F/w" "$F/run"
( cd "$H" && go test -tags verif -c -fuzz=FuzzCampaign -o "$F/props.fuzz" ./props ) >"$F/build.log" 2>&1 || { cat "$F/build.log"; echo "fuzz binary build failed"; exit 2; }
t0=$(date +%s)
( cd "$F/run" && VERIF_PROP="$ID" VERIF_SEED="$SEED" VERIF_TIER=thorough VERIF_SCRATCH_DIR="$F/w" VERIF_SCRATCH_PERPID=1 VERIF_FAILDIR="$F/fail" VERIF_INPROC=1 \
    timeout $((BUDGET+300)) "$F/props.fuzz" -test.run '^$' -test.fuzz '^FuzzCampaign$' -test.fuzztime "${BUDGET}s" -test.fuzzcachedir "$F/cache" -test.parallel "$W" ) >"$F/run.log" 2>&1
rc=$?
t1=$(date +%s)
execs=$(grep -o 'execs: [0-9]*' "$F/run.log" | tail -1 | awk '{print $2}'); execs=${execs:-0}
inter=$(grep -o 'total: [0-9]*' "$F/run.log" | tail -1 | awk '{print $2}'); inter=${inter:-0}
cat > "$S/fuzz_stats.json" <<EOJ
{"evals": $execs, "nt_count": 0, "labels": {"engine:go-fuzz": $execs}, "discards": {}, "excluded": {}, "infra": {}, "samples": [],
 "extra": {"gofuzz_executions": $execs, "gofuzz_interesting_inputs": $inter, "gofuzz_wall_s": $((t1-t0)), "gofuzz_workers": $W}, "exhaustive": false, "requested": 0}
EOJ
if [ -f "$F/fail/case.json" ]; then
  vk=$(python3 -c "import json;print(json.load(open('$F/fail/case.json')).get('vkey') or 'x')" 2>/dev/null | tr -c 'A-Za-z0-9_.\n-' '_')
  dst="$VERIF/found/$ID/gofuzz-${vk}-s$SEED"; rm -rf "$dst"; mkdir -p "$dst"; cp -r "$F/fail/." "$dst/"
  echo "VIOLATION property=$ID replay=$dst"
  head -c 400 "$dst/observed.txt" 2>/dev/null
  exit 1
fi
if [ $rc -ne 0 ]; then
  # the engine stopped for a reason that is not a saved property failure (worker crash, hang): inconclusive
  tail -15 "$F/run.log"; exit 2
fi
[ "$execs" -lt 100 ] && { tail -5 "$F/run.log"; echo "the fuzzing engine executed almost nothing"; exit 2; }
exit 0
