#!/bin/bash
# thorough tier of C17: coverage-guided fuzzing (libFuzzer, ASan+UBSan) of the runtime map / dynamic array against an
# in-target linear-search model (cdrv/maparr_fuzz.c)
ID=C17 NAME=maparr BUDGET="${VERIF_FUZZ_BUDGET:-240}" MAXLEN=1203
REPO="${VERIF_REPO:-/repo}"
R="$REPO/runtime"
SRCS="$R/core/map.c $R/core/array.c $R/core/optional.c $R/core/alloc.c $R/libs/len.c $R/libs/append.c $R/libs/panic.c $R/core/string_runtime.c"
. "$(dirname "$0")/libfuzzer_common.sh"
