#!/bin/bash
# thorough tier of C13: native Go fuzzing of the campaign property (see run_gofuzz.sh)
ID=C13 exec bash "$(dirname "$0")/run_gofuzz.sh"
