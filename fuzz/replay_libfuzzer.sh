#!/bin/bash
# usage: replay_libfuzzer.sh <dir with case.json + input.bin> — rebuilds the libFuzzer target named in case.json
# from /repo's working tree and runs it on the saved input; exit 1 + VIOLATION line if it still fails
set -u
dir="$(cd "$1" && pwd)"; VERIF="${VERIF_DIR:-/verif}"; REPO="${VERIF_REPO:-/repo}"
name=$(python3 -c "import json;print(json.load(open('$dir/case.json'))['engine'].split(':')[1].replace('_fuzz',''))") || exit 2
id=$(python3 -c "import json;print(json.load(open('$dir/case.json'))['property'])")
T=$(mktemp -d /dev/shm/verif.XXXXXX); trap 'rm -rf "$T"' EXIT
R="$REPO/runtime"
case "$name" in
  bigint) SRCS="$R/core/bigint.c" ;;
  maparr) SRCS="$R/core/map.c $R/core/array.c $R/core/optional.c $R/core/alloc.c $R/libs/len.c $R/libs/append.c $R/libs/panic.c $R/core/string_runtime.c" ;;
  *) echo "unknown engine"; exit 2 ;;
esac
clang -fsanitize=fuzzer,address,undefined -fno-sanitize-recover=undefined -g -O1 -std=gnu99 -w -I "$R/core" -I "$R/libs" -o "$T/target" "$VERIF/cdrv/${name}_fuzz.c" $SRCS -lm >"$T/build.log" 2>&1 || { cat "$T/build.log"; exit 2; }
if "$T/target" "$dir/input.bin" >"$T/out.log" 2>&1; then
  echo "REPLAY $dir pass pass - :: libFuzzer input no longer fails"; exit 0
fi
grep -m5 "MISMATCH\|ERROR\| a \| b \| got\| want" "$T/out.log"
echo "VIOLATION property=$id replay=$dir"; exit 1
