#!/bin/bash
# thorough tier of C16: coverage-guided fuzzing (libFuzzer, ASan+UBSan) of runtime/core/bigint.c against an
# independent 32-bit-limb reference implementation inside the target (cdrv/bigint_fuzz.c)
ID=C16 NAME=bigint BUDGET="${VERIF_FUZZ_BUDGET:-240}" MAXLEN=68
REPO="${VERIF_REPO:-/repo}"
SRCS="$REPO/runtime/core/bigint.c"
. "$(dirname "$0")/libfuzzer_common.sh"
