// Co-process driver for runtime/core/bigint.c (C16). ASan+UBSan build.
// Request:  <op> <type> <variant v|p> <a-hex> <b-hex|int|-> ; operands are big-endian hex of N/4 digits.
// Reply:    result as big-endian hex (N/4 digits), or 0/1 for comparisons, or text for to_string / to_64.
#include <stdio.h>
#include <stdlib.h>
#include <string.h>
#include <stdint.h>
#include <stdbool.h>
#include <inttypes.h>
#include "bigint.h"

static int hexv(int c) { if (c >= '0' && c <= '9') return c - '0'; if (c >= 'a' && c <= 'f') return c - 'a' + 10; if (c >= 'A' && c <= 'F') return c - 'A' + 10; return 0; }

static void load(const char* hex, ferret_limb_t* w, int nlimbs) {
    int nbytes = nlimbs * (FERRET_LIMB_BITS / 8);
    uint8_t bytes[32]; memset(bytes, 0, sizeof bytes);
    size_t l = strlen(hex);
    for (int i = 0; i < nbytes; i++) { // byte i = little-endian index
        long pos = (long)l - 2 * (i + 1);
        int lo = pos + 1 >= 0 && pos + 1 < (long)l ? hexv(hex[pos + 1]) : 0;
        int hi = pos >= 0 ? hexv(hex[pos]) : 0;
        bytes[i] = (uint8_t)(hi * 16 + lo);
    }
    for (int i = 0; i < nlimbs; i++) {
        ferret_limb_t v = 0;
        for (int j = FERRET_LIMB_BITS / 8 - 1; j >= 0; j--) v = (ferret_limb_t)((v << 8) | bytes[i * (FERRET_LIMB_BITS / 8) + j]);
        w[i] = v;
    }
}
static void store(const ferret_limb_t* w, int nlimbs) {
    for (int i = nlimbs - 1; i >= 0; i--) {
#if FERRET_LIMB_BITS == 64
        printf("%016" PRIx64, (uint64_t)w[i]);
#else
        printf("%08" PRIx32, (uint32_t)w[i]);
#endif
    }
    putchar('\n');
}

#define BIN(T, L, name) \
    if (!strcmp(op, #name)) { ferret_##T a, b, r; load(A, a.words, L); load(B, b.words, L); \
        if (ptr) ferret_##T##_##name##_ptr(&a, &b, &r); else r = ferret_##T##_##name(a, b); store(r.words, L); return 1; }
#define CMP(T, L, name) \
    if (!strcmp(op, #name)) { ferret_##T a, b; load(A, a.words, L); load(B, b.words, L); \
        bool r = ptr ? ferret_##T##_##name##_ptr(&a, &b) : ferret_##T##_##name(a, b); printf("%d\n", r ? 1 : 0); return 1; }
#define SHIFT(T, L, name) \
    if (!strcmp(op, #name)) { ferret_##T a, r; load(A, a.words, L); r = ferret_##T##_##name(a, atoi(B)); store(r.words, L); return 1; }

#define COMMON(T, L) \
    BIN(T, L, add) BIN(T, L, sub) BIN(T, L, mul) BIN(T, L, div) BIN(T, L, mod) BIN(T, L, and) BIN(T, L, or) BIN(T, L, xor) BIN(T, L, pow) \
    CMP(T, L, eq) CMP(T, L, lt) CMP(T, L, gt) SHIFT(T, L, shl) SHIFT(T, L, shr) \
    if (!strcmp(op, "tostr")) { ferret_##T a; load(A, a.words, L); char* s = ptr ? ferret_##T##_to_string_ptr(&a) : ferret_##T##_to_string(a); \
        printf("%s\n", s ? s : "NULL"); free(s); return 1; } \
    if (!strcmp(op, "fromstr")) { ferret_##T r; if (ptr) ferret_##T##_from_string_ptr(A, &r); else r = ferret_##T##_from_string(A); store(r.words, L); return 1; }

static int do_i128(const char* op, int ptr, const char* A, const char* B) {
    COMMON(i128, FERRET_U128_LIMBS)
    if (!strcmp(op, "not")) { ferret_i128 a, r; load(A, a.words, FERRET_U128_LIMBS); r = ferret_i128_not(a); store(r.words, FERRET_U128_LIMBS); return 1; }
    if (!strcmp(op, "from64")) { ferret_i128 r; int64_t v = (int64_t)strtoull(A, NULL, 16); if (ptr) ferret_i128_from_i64_ptr(v, &r); else r = ferret_i128_from_i64(v); store(r.words, FERRET_U128_LIMBS); return 1; }
    if (!strcmp(op, "to64")) { ferret_i128 a; load(A, a.words, FERRET_U128_LIMBS); int64_t v = ptr ? ferret_i128_to_i64_ptr(&a) : ferret_i128_to_i64(a); printf("%016" PRIx64 "\n", (uint64_t)v); return 1; }
    return 0;
}
static int do_u128(const char* op, int ptr, const char* A, const char* B) {
    COMMON(u128, FERRET_U128_LIMBS)
    if (!strcmp(op, "not")) { ferret_u128 a, r; load(A, a.words, FERRET_U128_LIMBS); r = ferret_u128_not(a); store(r.words, FERRET_U128_LIMBS); return 1; }
    if (!strcmp(op, "from64")) { ferret_u128 r; uint64_t v = strtoull(A, NULL, 16); if (ptr) ferret_u128_from_u64_ptr(v, &r); else r = ferret_u128_from_u64(v); store(r.words, FERRET_U128_LIMBS); return 1; }
    if (!strcmp(op, "to64")) { ferret_u128 a; load(A, a.words, FERRET_U128_LIMBS); uint64_t v = ptr ? ferret_u128_to_u64_ptr(&a) : ferret_u128_to_u64(a); printf("%016" PRIx64 "\n", v); return 1; }
    return 0;
}
static int do_i256(const char* op, int ptr, const char* A, const char* B) {
    COMMON(i256, FERRET_U256_LIMBS)
    if (!strcmp(op, "not")) { ferret_i256 a, r; load(A, a.words, FERRET_U256_LIMBS); if (ptr) ferret_i256_not_ptr(&a, &r); else r = ferret_i256_not(a); store(r.words, FERRET_U256_LIMBS); return 1; }
    if (!strcmp(op, "from64")) { ferret_i256 r; int64_t v = (int64_t)strtoull(A, NULL, 16); if (ptr) ferret_i256_from_i64_ptr(v, &r); else r = ferret_i256_from_i64(v); store(r.words, FERRET_U256_LIMBS); return 1; }
    if (!strcmp(op, "to64")) { ferret_i256 a; load(A, a.words, FERRET_U256_LIMBS); int64_t v = ptr ? ferret_i256_to_i64_ptr(&a) : ferret_i256_to_i64(a); printf("%016" PRIx64 "\n", (uint64_t)v); return 1; }
    return 0;
}
static int do_u256(const char* op, int ptr, const char* A, const char* B) {
    COMMON(u256, FERRET_U256_LIMBS)
    if (!strcmp(op, "not")) { ferret_u256 a, r; load(A, a.words, FERRET_U256_LIMBS); if (ptr) ferret_u256_not_ptr(&a, &r); else r = ferret_u256_not(a); store(r.words, FERRET_U256_LIMBS); return 1; }
    if (!strcmp(op, "from64")) { ferret_u256 r; uint64_t v = strtoull(A, NULL, 16); if (ptr) ferret_u256_from_u64_ptr(v, &r); else r = ferret_u256_from_u64(v); store(r.words, FERRET_U256_LIMBS); return 1; }
    if (!strcmp(op, "to64")) { ferret_u256 a; load(A, a.words, FERRET_U256_LIMBS); uint64_t v = ptr ? ferret_u256_to_u64_ptr(&a) : ferret_u256_to_u64(a); printf("%016" PRIx64 "\n", v); return 1; }
    return 0;
}

int main(void) {
    static char line[4096];
    setvbuf(stdout, NULL, _IOFBF, 1 << 16);
    while (fgets(line, sizeof line, stdin)) {
        char* tok[8]; int nt = 0;
        for (char* p = strtok(line, " \n"); p && nt < 8; p = strtok(NULL, " \n")) tok[nt++] = p;
        if (nt == 1 && !strcmp(tok[0], "limbbits")) { printf("%d\n", FERRET_LIMB_BITS); fflush(stdout); continue; }
        if (nt < 4) { puts("ERR args"); fflush(stdout); continue; }
        const char* op = tok[0]; const char* ty = tok[1]; int ptr = tok[2][0] == 'p'; const char* A = tok[3]; const char* B = nt > 4 ? tok[4] : "0";
        int ok = 0;
        if (!strcmp(ty, "i128")) ok = do_i128(op, ptr, A, B);
        else if (!strcmp(ty, "u128")) ok = do_u128(op, ptr, A, B);
        else if (!strcmp(ty, "i256")) ok = do_i256(op, ptr, A, B);
        else if (!strcmp(ty, "u256")) ok = do_u256(op, ptr, A, B);
        if (!ok) puts("ERR op");
        fflush(stdout);
    }
    return 0;
}
