// libFuzzer target for the 128/256-bit integer runtime (property C16, thorough tier).
// Oracle: an independent, deliberately simple reference implementation on 32-bit limbs
// (schoolbook multiplication, bit-by-bit long division, sign-magnitude for signed
// division) evaluated in the same process; every mismatch aborts with the operation and
// the operands in hex.  Built with ASan+UBSan, so memory errors abort as well.
//
// Input layout: byte0 = type (i128,u128,i256,u256), byte1 = operation, byte2 = flags
// (bit0: use the *_ptr entry point), byte3 = shift count / exponent, then two operands
// of 32 bytes each (little endian; missing bytes are zero).
#include <stdint.h>
#include <stddef.h>
#include <stdio.h>
#include <stdlib.h>
#include <string.h>
#include <stdbool.h>
#include "bigint.h"

#define MAXL 8 /* 32-bit limbs of the reference */
typedef struct { uint32_t w[MAXL]; } R;

static int NL; /* reference limbs in use: 4 or 8 */
static int SIGNED;

static R r_zero(void) { R z; memset(&z, 0, sizeof z); return z; }
static bool r_neg(const R* a) { return (a->w[NL-1] >> 31) & 1; }
static bool r_iszero(const R* a) { for (int i = 0; i < NL; i++) if (a->w[i]) return false; return true; }
static R r_add(R a, R b) { R o = r_zero(); uint64_t c = 0; for (int i = 0; i < NL; i++) { uint64_t s = (uint64_t)a.w[i] + b.w[i] + c; o.w[i] = (uint32_t)s; c = s >> 32; } return o; }
static R r_not(R a) { R o = r_zero(); for (int i = 0; i < NL; i++) o.w[i] = ~a.w[i]; return o; }
static R r_one(void) { R o = r_zero(); o.w[0] = 1; return o; }
static R r_negate(R a) { return r_add(r_not(a), r_one()); }
static R r_sub(R a, R b) { return r_add(a, r_negate(b)); }
static R r_mul(R a, R b) { R o = r_zero(); for (int i = 0; i < NL; i++) { uint64_t c = 0; for (int j = 0; i + j < NL; j++) { uint64_t t = (uint64_t)a.w[i] * b.w[j] + o.w[i+j] + c; o.w[i+j] = (uint32_t)t; c = t >> 32; } } return o; }
static int r_ucmp(const R* a, const R* b) { for (int i = NL-1; i >= 0; i--) { if (a->w[i] != b->w[i]) return a->w[i] < b->w[i] ? -1 : 1; } return 0; }
static int r_cmp(const R* a, const R* b) { if (SIGNED && r_neg(a) != r_neg(b)) return r_neg(a) ? -1 : 1; return r_ucmp(a, b); }
static R r_shl1(R a) { R o = r_zero(); uint32_t c = 0; for (int i = 0; i < NL; i++) { o.w[i] = (a.w[i] << 1) | c; c = a.w[i] >> 31; } return o; }
static bool r_bit(const R* a, int k) { return (a->w[k/32] >> (k%32)) & 1; }
static void r_udivmod(R a, R b, R* q, R* r) { *q = r_zero(); *r = r_zero(); for (int k = NL*32-1; k >= 0; k--) { *r = r_shl1(*r); if (r_bit(&a, k)) r->w[0] |= 1; if (r_ucmp(r, &b) >= 0) { *r = r_sub(*r, b); q->w[k/32] |= 1u << (k%32); } } }
static void r_divmod(R a, R b, R* q, R* r) { /* truncating division; results reduced mod 2^N */
    if (!SIGNED) { r_udivmod(a, b, q, r); return; }
    bool na = r_neg(&a), nb = r_neg(&b);
    R ua = na ? r_negate(a) : a, ub = nb ? r_negate(b) : b;
    r_udivmod(ua, ub, q, r);
    if (na != nb) *q = r_negate(*q);
    if (na) *r = r_negate(*r);
}
static R r_shl(R a, int n) { R o = r_zero(); for (int k = NL*32-1; k >= n; k--) if (r_bit(&a, k-n)) o.w[k/32] |= 1u << (k%32); return o; }
static R r_shr(R a, int n) { R o = r_zero(); bool s = SIGNED && r_neg(&a); for (int k = 0; k < NL*32; k++) { bool bit = (k + n < NL*32) ? r_bit(&a, k+n) : s; if (bit) o.w[k/32] |= 1u << (k%32); } return o; }
static R r_pow(R b, unsigned e) { R o = r_one(); for (unsigned i = 0; i < e; i++) o = r_mul(o, b); return o; }
/* decimal text of the value (signed: with leading '-') */
static void r_tostr(R a, char* out) {
    char tmp[100]; int n = 0; bool neg = SIGNED && r_neg(&a); if (neg) a = r_negate(a);
    if (r_iszero(&a)) tmp[n++] = '0';
    while (!r_iszero(&a)) { uint64_t rem = 0; for (int i = NL-1; i >= 0; i--) { uint64_t cur = (rem << 32) | a.w[i]; a.w[i] = (uint32_t)(cur / 10); rem = cur % 10; } tmp[n++] = (char)('0' + rem); }
    int p = 0; if (neg) out[p++] = '-'; while (n > 0) out[p++] = tmp[--n]; out[p] = 0;
}

static void die(const char* ty, const char* op, int ptr, const R* a, const R* b, int n, const R* got, const R* want) {
    fprintf(stderr, "MISMATCH %s %s%s n=%d\n a    = ", ty, op, ptr ? "_ptr" : "", n);
    for (int i = NL-1; i >= 0; i--) fprintf(stderr, "%08x", a->w[i]);
    fprintf(stderr, "\n b    = "); for (int i = NL-1; i >= 0; i--) fprintf(stderr, "%08x", b->w[i]);
    fprintf(stderr, "\n got  = "); for (int i = NL-1; i >= 0; i--) fprintf(stderr, "%08x", got->w[i]);
    fprintf(stderr, "\n want = "); for (int i = NL-1; i >= 0; i--) fprintf(stderr, "%08x", want->w[i]);
    fprintf(stderr, "\n"); abort();
}

/* conversion between the reference and the runtime representation (whatever its limb size) */
#define TO_RT(T, r, out) do { memset(&(out), 0, sizeof(out)); memcpy((out).words, (r).w, sizeof((out).words)); } while (0)
#define FROM_RT(v, r) do { (r) = r_zero(); memcpy((r).w, (v).words, sizeof((v).words)); } while (0)

#define BIN(T, name) do { ferret_##T x, y, z; TO_RT(T, a, x); TO_RT(T, b, y); \
    if (ptr) ferret_##T##_##name##_ptr(&x, &y, &z); else z = ferret_##T##_##name(x, y); FROM_RT(z, got); } while (0)
#define CMP(T, name) do { ferret_##T x, y; TO_RT(T, a, x); TO_RT(T, b, y); \
    bool r = ptr ? ferret_##T##_##name##_ptr(&x, &y) : ferret_##T##_##name(x, y); got = r_zero(); got.w[0] = r; } while (0)
#define SHIFT(T, name) do { ferret_##T x, z; TO_RT(T, a, x); z = ferret_##T##_##name(x, n); FROM_RT(z, got); } while (0)
#define NOT(T) do { ferret_##T x, z; TO_RT(T, a, x); z = ferret_##T##_not(x); FROM_RT(z, got); } while (0)
#define STR(T) do { ferret_##T x, z; TO_RT(T, a, x); char* s = ferret_##T##_to_string(x); char want_s[100]; r_tostr(a, want_s); \
    if (!s || strcmp(s, want_s)) { fprintf(stderr, "MISMATCH %s to_string: got %s want %s\n", #T, s ? s : "(null)", want_s); abort(); } \
    z = ferret_##T##_from_string(s); FROM_RT(z, got); free(s); } while (0)

#define DISPATCH(T) \
    switch (op) { \
    case 0: BIN(T, add); want = r_add(a, b); nm = "add"; break; \
    case 1: BIN(T, sub); want = r_sub(a, b); nm = "sub"; break; \
    case 2: BIN(T, mul); want = r_mul(a, b); nm = "mul"; break; \
    case 3: if (r_iszero(&b)) return 0; BIN(T, div); { R q, r; r_divmod(a, b, &q, &r); want = q; } nm = "div"; break; \
    case 4: if (r_iszero(&b)) return 0; BIN(T, mod); { R q, r; r_divmod(a, b, &q, &r); want = r; } nm = "mod"; break; \
    case 5: CMP(T, eq); want = r_zero(); want.w[0] = r_cmp(&a, &b) == 0; nm = "eq"; break; \
    case 6: CMP(T, lt); want = r_zero(); want.w[0] = r_cmp(&a, &b) < 0; nm = "lt"; break; \
    case 7: CMP(T, gt); want = r_zero(); want.w[0] = r_cmp(&a, &b) > 0; nm = "gt"; break; \
    case 8: BIN(T, and); for (int i = 0; i < NL; i++) want.w[i] = a.w[i] & b.w[i]; nm = "and"; break; \
    case 9: BIN(T, or); for (int i = 0; i < NL; i++) want.w[i] = a.w[i] | b.w[i]; nm = "or"; break; \
    case 10: BIN(T, xor); for (int i = 0; i < NL; i++) want.w[i] = a.w[i] ^ b.w[i]; nm = "xor"; break; \
    case 11: NOT(T); want = r_not(a); nm = "not"; break; \
    case 12: n = n % (NL*32); SHIFT(T, shl); want = r_shl(a, n); nm = "shl"; break; \
    case 13: n = n % (NL*32); SHIFT(T, shr); want = r_shr(a, n); nm = "shr"; break; \
    case 14: STR(T); want = a; nm = "to_string/from_string"; break; \
    case 15: { n = n % 40; b = r_zero(); b.w[0] = (uint32_t)n; BIN(T, pow); want = r_pow(a, (unsigned)n); nm = "pow"; } break; \
    }

int LLVMFuzzerTestOneInput(const uint8_t* data, size_t size) {
    if (size < 4) return 0;
    int ty = data[0] & 3, op = data[1] & 15, ptr = data[2] & 1, n = data[3];
    uint8_t buf[64]; memset(buf, 0, sizeof buf);
    size_t k = size - 4; if (k > 64) k = 64; memcpy(buf, data + 4, k);
    SIGNED = (ty == 0 || ty == 2); NL = ty < 2 ? 4 : 8;
    R a = r_zero(), b = r_zero(), got = r_zero(), want = r_zero();
    memcpy(a.w, buf, (size_t)NL * 4); memcpy(b.w, buf + 32, (size_t)NL * 4);
    const char* nm = "?";
    /* entry points that only exist by value */
    if (op >= 11 && op <= 14) ptr = 0;
    switch (ty) {
    case 0: DISPATCH(i128); if (memcmp(&got, &want, sizeof got)) die("i128", nm, ptr, &a, &b, n, &got, &want); break;
    case 1: DISPATCH(u128); if (memcmp(&got, &want, sizeof got)) die("u128", nm, ptr, &a, &b, n, &got, &want); break;
    case 2: DISPATCH(i256); if (memcmp(&got, &want, sizeof got)) die("i256", nm, ptr, &a, &b, n, &got, &want); break;
    case 3: DISPATCH(u256); if (memcmp(&got, &want, sizeof got)) die("u256", nm, ptr, &a, &b, n, &got, &want); break;
    }
    return 0;
}
