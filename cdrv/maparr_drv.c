// Co-process driver for the Ferret runtime map / dynamic array (C17).
// Built with clang ASan+UBSan against /repo/runtime/core/{map,array,optional}.c
// and runtime/libs/{len,append}.c.  Line protocol on stdin/stdout; every
// command produces exactly one reply line.  All keys/values are hex strings.
#include <stdio.h>
#include <stdlib.h>
#include <string.h>
#include <stdint.h>
#include <stdbool.h>
#include "map.h"
#include "array.h"

int32_t ferret_len_array(void* arr);
int32_t ferret_len_map(void* map);
bool ferret_append_array(void* arr, const void* elem);
void ferret_optional_unwrap_or(const void* opt, const void* default_val, void* out, uint64_t val_size);

#define MAXH 256
typedef struct { ferret_map_t* m; int flavor; size_t ks, vs; } mh_t; // flavor 0 i32 1 i64 2 str 3 bytes
static mh_t maps[MAXH]; static int nmaps = 0;
static ferret_array_t* arrs[MAXH]; static int narrs = 0;

static int hexv(int c) { if (c >= '0' && c <= '9') return c - '0'; if (c >= 'a' && c <= 'f') return c - 'a' + 10; return -1; }
// decode hex token into exactly-sized malloc buffer (so ASan sees over-reads); returns length
static uint8_t* unhex(const char* s, size_t* n) {
    size_t l = strlen(s);
    if (l == 1 && s[0] == '-') { *n = 0; return (uint8_t*)malloc(1); }
    *n = l / 2;
    uint8_t* b = (uint8_t*)malloc(*n ? *n : 1);
    for (size_t i = 0; i < *n; i++) b[i] = (uint8_t)(hexv(s[2*i]) * 16 + hexv(s[2*i+1]));
    return b;
}
static void puthex(const uint8_t* b, size_t n) { if (n == 0) { fputs("-", stdout); return; } for (size_t i = 0; i < n; i++) printf("%02x", b[i]); }

// builds the key argument for a map flavor; for str the key is a pointer to a char* (kept alive forever)
static void* mkkey(mh_t* h, const char* tok) {
    size_t n; uint8_t* raw = unhex(tok, &n);
    if (h->flavor == 2) {
        char* s = (char*)malloc(n + 1); memcpy(s, raw, n); s[n] = 0; free(raw);
        char** pp = (char**)malloc(sizeof(char*)); *pp = s; return pp; // leaked by design: map stores the pointer
    }
    if (n != h->ks) { uint8_t* b = (uint8_t*)calloc(1, h->ks ? h->ks : 1); memcpy(b, raw, n < h->ks ? n : h->ks); free(raw); return b; }
    return raw;
}
static void putkey(mh_t* h, const void* k) {
    if (h->flavor == 2) { const char* s = *(const char* const*)k; puthex((const uint8_t*)s, strlen(s)); }
    else puthex((const uint8_t*)k, h->ks);
}
static ferret_map_t* newmap(int flavor, size_t ks, size_t vs) {
    switch (flavor) { case 0: return ferret_map_new_i32(ks, vs); case 1: return ferret_map_new_i64(ks, vs);
                      case 2: return ferret_map_new_str(ks, vs); default: return ferret_map_new_bytes(ks, vs); }
}

int main(void) {
    static char line[1 << 20];
    setvbuf(stdout, NULL, _IOFBF, 1 << 16);
    while (fgets(line, sizeof line, stdin)) {
        char* tok[4096]; int nt = 0;
        for (char* p = strtok(line, " \n"); p && nt < 4096; p = strtok(NULL, " \n")) tok[nt++] = p;
        if (nt == 0) { puts("ERR empty"); fflush(stdout); continue; }
        const char* c = tok[0];
        if (!strcmp(c, "mnew") && nt == 4) {
            mh_t* h = &maps[nmaps]; h->flavor = atoi(tok[1]); h->ks = (size_t)atol(tok[2]); h->vs = (size_t)atol(tok[3]);
            h->m = newmap(h->flavor, h->ks, h->vs); printf("%d\n", h->m ? nmaps++ : -1);
        } else if (!strcmp(c, "mfrom") && nt >= 5) { // mfrom flavor ks vs n k v k v ...
            mh_t* h = &maps[nmaps]; h->flavor = atoi(tok[1]); h->ks = (size_t)atol(tok[2]); h->vs = (size_t)atol(tok[3]);
            size_t n = (size_t)atol(tok[4]);
            uint8_t* keys = (uint8_t*)malloc(n * h->ks ? n * h->ks : 1); uint8_t* vals = (uint8_t*)malloc(n * h->vs ? n * h->vs : 1);
            for (size_t i = 0; i < n; i++) {
                void* k = mkkey(h, tok[5 + 2*i]); memcpy(keys + i * h->ks, k, h->ks);
                size_t vn; uint8_t* v = unhex(tok[6 + 2*i], &vn); memcpy(vals + i * h->vs, v, h->vs); free(v);
            }
            switch (h->flavor) { case 0: h->m = ferret_map_from_pairs_i32(h->ks, h->vs, keys, vals, n); break;
                                 case 1: h->m = ferret_map_from_pairs_i64(h->ks, h->vs, keys, vals, n); break;
                                 case 2: h->m = ferret_map_from_pairs_str(h->ks, h->vs, keys, vals, n); break;
                                 default: h->m = ferret_map_from_pairs_bytes(h->ks, h->vs, keys, vals, n); }
            free(keys); free(vals); printf("%d\n", h->m ? nmaps++ : -1);
        } else if (!strcmp(c, "mset") && nt == 4) {
            mh_t* h = &maps[atoi(tok[1])]; void* k = mkkey(h, tok[2]); size_t vn; uint8_t* v = unhex(tok[3], &vn);
            bool ok = ferret_map_set(h->m, k, v); free(v); if (h->flavor != 2) free(k); printf("%d\n", ok ? 1 : 0);
        } else if (!strcmp(c, "mget") && nt == 3) {
            mh_t* h = &maps[atoi(tok[1])]; void* k = mkkey(h, tok[2]); void* v = ferret_map_get(h->m, k);
            if (v) { fputs("some ", stdout); puthex((uint8_t*)v, h->vs); puts(""); } else puts("none");
            if (h->flavor != 2) free(k);
        } else if (!strcmp(c, "mgetopt") && nt == 3) { // exact-size optional buffer: value bytes + flag byte
            mh_t* h = &maps[atoi(tok[1])]; void* k = mkkey(h, tok[2]);
            uint8_t* out = (uint8_t*)malloc(h->vs + 1); memset(out, 0xAA, h->vs + 1);
            ferret_map_get_optional_out(h->m, k, out);
            printf("%d ", out[h->vs]); puthex(out, h->vs); puts(""); free(out); if (h->flavor != 2) free(k);
        } else if (!strcmp(c, "munwrap") && nt == 4) { // get_optional_out then unwrap_or(default)
            mh_t* h = &maps[atoi(tok[1])]; void* k = mkkey(h, tok[2]); size_t dn; uint8_t* d = unhex(tok[3], &dn);
            uint8_t* opt = (uint8_t*)malloc(h->vs + 1); memset(opt, 0xAA, h->vs + 1);
            ferret_map_get_optional_out(h->m, k, opt);
            uint8_t* out = (uint8_t*)malloc(h->vs ? h->vs : 1); memset(out, 0x55, h->vs ? h->vs : 1);
            ferret_optional_unwrap_or(opt, d, out, (uint64_t)h->vs);
            puthex(out, h->vs); puts(""); free(opt); free(out); free(d); if (h->flavor != 2) free(k);
        } else if (!strcmp(c, "mhas") && nt == 3) {
            mh_t* h = &maps[atoi(tok[1])]; void* k = mkkey(h, tok[2]); printf("%d\n", ferret_map_has(h->m, k) ? 1 : 0); if (h->flavor != 2) free(k);
        } else if (!strcmp(c, "msize") && nt == 2) {
            mh_t* h = &maps[atoi(tok[1])]; printf("%zu %d\n", ferret_map_size(h->m), (int)ferret_len_map(h->m));
        } else if (!strcmp(c, "miter") && nt == 2) { // the loop shape the compiler emits: begin, then next until false
            mh_t* h = &maps[atoi(tok[1])]; ferret_map_iter_t it; long cnt = 0;
            if (ferret_map_iter_begin(h->m, &it)) {
                void *k, *v;
                while (ferret_map_iter_next(h->m, &it, &k, &v)) {
                    if (cnt++) fputs(" ", stdout);
                    putkey(h, k); fputs(":", stdout); puthex((uint8_t*)v, h->vs);
                    if (cnt > 100000) break;
                }
            }
            if (cnt == 0) fputs("empty", stdout);
            puts("");
        } else if (!strcmp(c, "mfree") && nt == 2) {
            mh_t* h = &maps[atoi(tok[1])]; ferret_map_destroy(h->m); h->m = NULL; puts("ok");
        } else if (!strcmp(c, "anew") && nt == 3) {
            arrs[narrs] = ferret_array_new((size_t)atol(tok[1]), (int32_t)atoi(tok[2])); printf("%d\n", arrs[narrs] ? narrs++ : -1);
        } else if (!strcmp(c, "aappend") && nt == 4) { // aappend h viaWrapper valhex
            ferret_array_t* a = arrs[atoi(tok[1])]; size_t vn; uint8_t* v = unhex(tok[3], &vn);
            bool ok = atoi(tok[2]) ? ferret_append_array(a, v) : ferret_array_append(a, v); free(v); printf("%d\n", ok ? 1 : 0);
        } else if (!strcmp(c, "aget") && nt == 3) {
            ferret_array_t* a = arrs[atoi(tok[1])]; void* p = ferret_array_get(a, (int32_t)atoi(tok[2]));
            if (p) { fputs("some ", stdout); puthex((uint8_t*)p, a->elem_size); puts(""); } else puts("none");
        } else if (!strcmp(c, "aset") && nt == 4) {
            ferret_array_t* a = arrs[atoi(tok[1])]; size_t vn; uint8_t* v = unhex(tok[3], &vn);
            printf("%d\n", ferret_array_set(a, (int32_t)atoi(tok[2]), v) ? 1 : 0); free(v);
        } else if (!strcmp(c, "alen") && nt == 2) {
            ferret_array_t* a = arrs[atoi(tok[1])]; printf("%d %d %d\n", ferret_array_len(a), ferret_len_array(a), ferret_array_cap(a));
        } else if (!strcmp(c, "aresize") && nt == 3) {
            ferret_array_t* a = arrs[atoi(tok[1])]; printf("%d\n", ferret_array_resize(a, (int32_t)atoi(tok[2])) ? 1 : 0);
        } else if (!strcmp(c, "adump") && nt == 2) { // all elements by direct index 0..len-1 through ferret_array_get
            ferret_array_t* a = arrs[atoi(tok[1])]; int32_t n = ferret_array_len(a);
            if (n == 0) fputs("empty", stdout);
            for (int32_t i = 0; i < n; i++) { if (i) fputs(" ", stdout); void* p = ferret_array_get(a, i); if (p) puthex((uint8_t*)p, a->elem_size); else fputs("NULL", stdout); }
            puts("");
        } else if (!strcmp(c, "afree") && nt == 2) {
            ferret_array_destroy(arrs[atoi(tok[1])]); arrs[atoi(tok[1])] = NULL; puts("ok");
        } else if (!strcmp(c, "reset")) {
            for (int i = 0; i < nmaps; i++) if (maps[i].m) { ferret_map_destroy(maps[i].m); maps[i].m = NULL; }
            for (int i = 0; i < narrs; i++) if (arrs[i]) { ferret_array_destroy(arrs[i]); arrs[i] = NULL; }
            nmaps = 0; narrs = 0; puts("ok");
        } else {
            puts("ERR bad command");
        }
        fflush(stdout);
    }
    return 0;
}
