// libFuzzer target for the runtime map and dynamic array (property C17, thorough tier).
// The input bytes are decoded into an operation history on one map and one array; an
// obviously-correct model (unsorted arrays, linear search) runs next to the real code and
// is compared after every step: lookup results, has, size, optional output, and - every 16
// steps and at the end - a full iteration (each model entry exactly once) resp. a full dump.
// Built with ASan+UBSan: out-of-bounds accesses and use-after-free abort too.
//
// Input: byte0 = map flavour (i32,i64,str,bytes) | value size selector, byte1 = bytes-key size /
// array element size selector, byte2 = initial capacity, then operations of 3 bytes
// (opcode, key/index byte, value byte).
#include <stdint.h>
#include <stddef.h>
#include <stdio.h>
#include <stdlib.h>
#include <string.h>
#include <stdbool.h>
#include "map.h"
#include "array.h"

int32_t ferret_len_array(void* arr);
int32_t ferret_len_map(void* map);
bool ferret_append_array(void* arr, const void* elem);
void ferret_optional_unwrap_or(const void* opt, const void* default_val, void* out, uint64_t val_size);

#define MAXN 600
#define MAXV 36
typedef struct { uint8_t k[16]; char s[24]; uint8_t v[MAXV]; } ent_t;
static ent_t model[MAXN]; static int nmodel;
static uint8_t amodel[MAXN][MAXV]; static int namodel;

static void fail(const char* what, int step) { fprintf(stderr, "MISMATCH at step %d: %s\n", step, what); abort(); }

static int flavor; static size_t ks, vs;
/* key material for key number kn (0..255): spread so that hash buckets collide and differ */
static void mkkey(int kn, uint8_t* kb, char* sb) {
    memset(kb, 0, 16);
    uint32_t x = (uint32_t)kn * 2654435761u;
    switch (flavor) {
    case 0: { int32_t v = (kn & 1) ? -(int32_t)(kn * 97) : (int32_t)(kn * 13); memcpy(kb, &v, 4); break; }
    case 1: { int64_t v = (kn & 1) ? -((int64_t)kn << 33) : ((int64_t)kn * 1000003); memcpy(kb, &v, 8); break; }
    case 2: snprintf(sb, 24, "k%u_%d", x % 1000u, kn); break;
    default: for (size_t i = 0; i < ks; i++) kb[i] = (uint8_t)(x >> (8 * (i % 4))) ^ (uint8_t)(kn + i); kb[0] = (uint8_t)kn; break;
    }
}
static void mkval(int vn, int salt, uint8_t* vb) { for (size_t i = 0; i < vs; i++) vb[i] = (uint8_t)(vn * 31 + salt * 7 + (int)i); }
static int find(const uint8_t* kb, const char* sb) {
    for (int i = 0; i < nmodel; i++) {
        if (flavor == 2 ? !strcmp(model[i].s, sb) : !memcmp(model[i].k, kb, ks)) return i;
    }
    return -1;
}

int LLVMFuzzerTestOneInput(const uint8_t* data, size_t size) {
    if (size < 3) return 0;
    static const size_t vsz[] = {1, 4, 8, 16, 36};
    flavor = data[0] & 3; vs = vsz[(data[0] >> 2) % 5];
    ks = flavor == 0 ? 4 : flavor == 1 ? 8 : flavor == 2 ? sizeof(char*) : (size_t)(1 + data[1] % 12);
    size_t es = vsz[(data[1] >> 4) % 5];
    int cap = data[2] % 9;
    ferret_map_t* m = flavor == 0 ? ferret_map_new_i32(ks, vs) : flavor == 1 ? ferret_map_new_i64(ks, vs)
                    : flavor == 2 ? ferret_map_new_str(ks, vs) : ferret_map_new_bytes(ks, vs);
    ferret_array_t* a = ferret_array_new(es, cap);
    if (!m || !a) abort();
    nmodel = 0; namodel = 0;
    /* string keys must stay alive while the map holds them */
    static char* keep[4096]; int nkeep = 0;
    int step = 0;
    for (size_t p = 3; p + 2 < size && step < 400; p += 3, step++) {
        int op = data[p] % 12, kn = data[p+1], vn = data[p+2];
        uint8_t kb[16]; char sb[24] = {0}; uint8_t vb[MAXV];
        mkkey(kn, kb, sb);
        const void* key = kb; char* sp = NULL;
        if (flavor == 2) { sp = strdup(sb); if (nkeep < 4096) keep[nkeep++] = sp; key = &sp; }
        switch (op) {
        case 0: case 1: case 2: { /* set */
            if (nmodel >= MAXN - 1) break;
            mkval(vn, step, vb);
            if (!ferret_map_set(m, key, vb)) fail("map set refused", step);
            int i = find(kb, sb);
            if (i < 0) { i = nmodel++; memcpy(model[i].k, kb, 16); strcpy(model[i].s, sb); }
            memcpy(model[i].v, vb, vs);
            break; }
        case 3: { /* get */
            void* v = ferret_map_get(m, key); int i = find(kb, sb);
            if ((v != NULL) != (i >= 0)) fail("map get: presence differs from the model", step);
            if (v && memcmp(v, model[i].v, vs)) fail("map get: value differs from the model", step);
            break; }
        case 4: { /* has + optional out + unwrap_or */
            int i = find(kb, sb);
            if (ferret_map_has(m, key) != (i >= 0)) fail("map has differs from the model", step);
            uint8_t* opt = (uint8_t*)malloc(vs + 1); memset(opt, 0xAA, vs + 1);
            ferret_map_get_optional_out(m, key, opt);
            if ((opt[vs] != 0) != (i >= 0)) fail("optional flag differs from the model", step);
            if (i >= 0 && memcmp(opt, model[i].v, vs)) fail("optional payload differs from the model", step);
            uint8_t* def = (uint8_t*)malloc(vs); memset(def, 0x5C, vs);
            uint8_t* out = (uint8_t*)malloc(vs);
            ferret_optional_unwrap_or(opt, def, out, (uint64_t)vs);
            if (memcmp(out, i >= 0 ? model[i].v : def, vs)) fail("unwrap_or differs from the model", step);
            free(opt); free(def); free(out);
            break; }
        case 5: /* size */
            if (ferret_map_size(m) != (size_t)nmodel || ferret_len_map(m) != nmodel) fail("map size differs from the model", step);
            break;
        case 6: case 7: { /* array append (direct / wrapper) */
            if (namodel >= MAXN - 1) break;
            for (size_t i = 0; i < es; i++) vb[i] = (uint8_t)(vn + step + (int)i);
            bool ok = op == 6 ? ferret_array_append(a, vb) : ferret_append_array(a, vb);
            if (!ok) fail("array append refused", step);
            memcpy(amodel[namodel++], vb, es);
            break; }
        case 8: { /* array get, index in [-2, len+2] */
            int idx = (int)(kn % (namodel + 5)) - 2;
            void* v = ferret_array_get(a, idx);
            bool in = idx >= 0 && idx < namodel;
            if ((v != NULL) != in) fail("array get: bounds decision differs from the model", step);
            if (v && memcmp(v, amodel[idx], es)) fail("array get: element differs from the model", step);
            break; }
        case 9: { /* array set */
            int idx = (int)(kn % (namodel + 5)) - 2;
            for (size_t i = 0; i < es; i++) vb[i] = (uint8_t)(vn * 3 + (int)i);
            bool ok = ferret_array_set(a, idx, vb);
            bool in = idx >= 0 && idx < namodel;
            if (ok != in) fail("array set: bounds decision differs from the model", step);
            if (in) memcpy(amodel[idx], vb, es);
            break; }
        case 10: /* array capacity change: content must stay */
            ferret_array_resize(a, (int32_t)(namodel + kn % 40));
            break;
        case 11:
            if (ferret_array_len(a) != namodel || ferret_len_array(a) != namodel) fail("array length differs from the model", step);
            if (ferret_array_cap(a) < namodel) fail("array capacity below length", step);
            break;
        }
        if (step % 16 == 15 || p + 5 >= size) {
            /* full iteration: every model entry exactly once */
            static uint8_t seen[MAXN]; memset(seen, 0, sizeof seen);
            ferret_map_iter_t it; long cnt = 0;
            if (ferret_map_iter_begin(m, &it)) {
                void *k, *v;
                while (ferret_map_iter_next(m, &it, &k, &v)) {
                    if (++cnt > nmodel) fail("iteration yields more entries than the model holds", step);
                    int i = flavor == 2 ? find(NULL, *(char**)k) : find((const uint8_t*)k, NULL);
                    if (i < 0) fail("iteration yields a key the model does not hold", step);
                    if (seen[i]) fail("iteration yields a key twice", step);
                    seen[i] = 1;
                    if (memcmp(v, model[i].v, vs)) fail("iteration yields a stale value", step);
                }
            }
            if (cnt != nmodel) fail("iteration yields fewer entries than the model holds", step);
            if (ferret_array_len(a) != namodel) fail("array length differs from the model", step);
            for (int i = 0; i < namodel; i++) { void* v = ferret_array_get(a, i); if (!v || memcmp(v, amodel[i], es)) fail("array dump differs from the model", step); }
        }
    }
    ferret_map_destroy(m); ferret_array_destroy(a);
    for (int i = 0; i < nkeep; i++) free(keep[i]);
    return 0;
}
