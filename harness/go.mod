module compiler/verifharness

go 1.25.4

require (
	compiler v0.0.0
	pgregory.net/rapid v1.3.0
)

replace compiler => /repo
