package fer

import (
	"fmt"
	"math/big"

	"pgregory.net/rapid"
)

// GenerateConsts builds programs that concentrate on what a compiler may evaluate early
// (property C09): named values (`const` / never-reassigned `let` / reassigned `let`) with
// literal or constant-expression initialisers over earlier names (+ - * / % unary minus,
// casts), used as fixed-array and dynamic-array indices (also negated), range bounds and
// steps, match scrutinees against literal patterns, constant conditions, loop bounds and in
// 8/16-bit arithmetic.  Every generated value is tracked while generating so that all
// constant expressions stay inside their type (folding and run-time arithmetic must agree)
// and every index is valid.
type cval struct {
	name  string
	t     *Type
	v     *big.Int
	known bool // value known while generating (false after a run-time dependent assignment)
	mut   bool // reassigned somewhere: never used where a compile-time constant is required
}

type cg struct {
	*G
	vals []*cval
	body []Stmt
}

// hasName: the expression mentions a variable (an all-literal expression is an untyped
// constant whose printed form does not depend on the type the generator had in mind).
func hasName(e Expr) bool {
	switch x := e.(type) {
	case *Var:
		return true
	case *Bin:
		return hasName(x.L) || hasName(x.R)
	case *Un:
		return hasName(x.X)
	case *Cast:
		return hasName(x.X)
	case *Index:
		return true
	}
	return false
}

func inRange(t *Type, v *big.Int) bool {
	lo, hi := t.Range()
	return v.Cmp(lo) >= 0 && v.Cmp(hi) <= 0
}

func (c *cg) ofType(t *Type, pred func(*cval) bool) []*cval {
	var out []*cval
	for _, v := range c.vals {
		if v.t.Equal(t) && v.known && (pred == nil || pred(v)) {
			out = append(out, v)
		}
	}
	return out
}

// expr builds an expression of type t over known names and literals together with its value;
// every intermediate value is inside t.
func (c *cg) expr(t *Type, depth int) (Expr, *big.Int) {
	names := c.ofType(t, nil)
	leaf := func() (Expr, *big.Int) {
		if len(names) > 0 && !c.chance(3, "leaflit") {
			v := names[c.intRange(0, len(names)-1, "name")]
			return &Var{T: t, Name: v.name}, v.v
		}
		var l *Lit
		if c.chance(3, "boundarylit") {
			l = c.intLit(t)
		} else {
			lo := -9
			if !t.Signed {
				lo = 0
			}
			l = &Lit{T: t, I: big.NewInt(int64(c.intRange(lo, 12, "smalllit")))}
		}
		return l, l.I
	}
	if depth <= 0 {
		return leaf()
	}
	switch c.intRange(0, 7, "ekind") {
	case 0, 1, 2, 3:
		op := rapid.SampledFrom([]string{"+", "-", "*", "/", "%", "+", "-"}).Draw(c.t, "op")
		l, lv := c.expr(t, depth-1)
		r, rv := c.expr(t, depth-1)
		var v *big.Int
		switch op {
		case "+":
			v = new(big.Int).Add(lv, rv)
		case "-":
			v = new(big.Int).Sub(lv, rv)
		case "*":
			v = new(big.Int).Mul(lv, rv)
		case "/":
			if rv.Sign() == 0 {
				return l, lv
			}
			v = new(big.Int).Quo(lv, rv)
		case "%":
			if rv.Sign() == 0 {
				return l, lv
			}
			v = new(big.Int).Rem(lv, rv)
		}
		if !inRange(t, v) {
			// arithmetic on typed values wraps around at run time; a constant evaluator has to agree.
			// (All-literal expressions stay in range: they are untyped constants.)
			if (hasName(l) || hasName(r)) && (op == "+" || op == "-" || op == "*") && c.use("consts.wrapping_arithmetic") {
				return &Bin{T: t, Op: op, L: l, R: r}, t.Wrap(v)
			}
			return l, lv
		}
		return &Bin{T: t, Op: op, L: l, R: r}, v
	case 4:
		if t.Signed {
			x, xv := c.expr(t, depth-1)
			v := new(big.Int).Neg(xv)
			if _, isLit := x.(*Lit); !isLit && inRange(t, v) {
				c.use("consts.negated_name")
				return &Un{T: t, Op: "-", X: x}, v
			}
			return x, xv
		}
	case 5:
		// cast from another integer type whose value fits
		var cands []*cval
		for _, cv := range c.vals {
			if cv.known && !cv.t.Equal(t) && cv.t.K == KInt && inRange(t, cv.v) {
				cands = append(cands, cv)
			}
		}
		if len(cands) > 0 {
			cv := cands[c.intRange(0, len(cands)-1, "castname")]
			c.use("consts.cast")
			return &Cast{T: t, X: &Var{T: cv.t, Name: cv.name}}, cv.v
		}
	}
	return leaf()
}

func (c *cg) declare(kind int, t *Type, init Expr, v *big.Int, prefix string) *cval {
	name := c.fresh(prefix)
	cv := &cval{name: name, t: t, v: v, known: true}
	switch kind {
	case 0:
		c.body = append(c.body, &Let{Name: name, T: t, Init: init, Const: true})
		c.use("consts.const")
	case 1:
		c.body = append(c.body, &Let{Name: name, T: t, Init: init})
		c.use("consts.let_never_reassigned")
	default:
		c.body = append(c.body, &Let{Name: name, T: t, Init: init})
		cv.mut = true
		c.use("consts.let_reassigned")
	}
	c.vals = append(c.vals, cv)
	return cv
}

func (c *cg) print(es ...Expr) { c.body = append(c.body, &Print{Args: es}) }

// indexName returns an i32 name (declaring one if needed) whose value v satisfies lo <= v <= hi.
func (c *cg) indexName(lo, hi int) *cval {
	i32 := IntT(32, true)
	cands := c.ofType(i32, func(v *cval) bool {
		return !v.mut && v.v.IsInt64() && v.v.Int64() >= int64(lo) && v.v.Int64() <= int64(hi)
	})
	if len(cands) > 0 && !c.chance(4, "newidx") {
		return cands[c.intRange(0, len(cands)-1, "idxname")]
	}
	val := big.NewInt(int64(c.intRange(lo, hi, "idxval")))
	return c.declare(c.intRange(0, 1, "idxkind"), i32, &Lit{T: i32, I: val}, val, "k")
}

func GenerateConsts(t *rapid.T, use func(string) bool) *Program {
	g := &G{t: t, cfg: Config{Use: use}, p: &Program{Features: map[string]int{}}, incFns: map[string]*Func{}, captured: map[string]bool{}}
	i32 := IntT(32, true)
	types := []*Type{i32, i32, IntT(64, true), IntT(8, true), IntT(8, false), IntT(16, true), IntT(16, false), IntT(32, false), IntT(64, false)}
	nscen := g.intRange(1, 2, "nscen")
	var calls []Stmt
	for sidx := 0; sidx < nscen; sidx++ {
		c := &cg{G: g}
		// declarations
		nd := g.intRange(3, 7, "ndecl")
		for i := 0; i < nd; i++ {
			ty := rapid.SampledFrom(types).Draw(t, "dtype")
			e, v := c.expr(ty, g.intRange(0, 2, "initdepth"))
			c.declare(g.intRange(0, 2, "dkind"), ty, e, v, "k")
		}
		// a fixed and a dynamic array to index
		et := rapid.SampledFrom([]*Type{i32, IntT(64, true), IntT(8, false), IntT(16, true)}).Draw(t, "elem")
		n := g.intRange(2, 6, "alen")
		fat := &Type{K: KFixed, Elem: et, Len: n}
		dat := &Type{K: KDyn, Elem: et}
		mk := func(at *Type) *ArrLit {
			l := &ArrLit{T: at}
			for i := 0; i < n; i++ {
				l.Elems = append(l.Elems, &Lit{T: et, I: big.NewInt(int64(10*(i+1) + i))})
			}
			return l
		}
		c.body = append(c.body, &Let{Name: "fa", T: fat, Init: mk(fat)}, &Let{Name: "da", T: dat, Init: mk(dat)})
		// uses
		nu := g.intRange(4, 10, "nuse")
		for u := 0; u < nu; u++ {
			switch g.intRange(0, 15, "use") {
			case 0, 1: // print expressions (all-constant ones are folded at compile time)
				ty := rapid.SampledFrom(types).Draw(t, "ptype")
				e1, _ := c.expr(ty, 2)
				e2, _ := c.expr(ty, 1)
				cmp := &Bin{T: TBool, Op: rapid.SampledFrom([]string{"<", "<=", "==", "!=", ">", ">="}).Draw(t, "cmp"), L: e1, R: e2}
				switch {
				case hasName(e1) && hasName(e2):
					c.print(e1, e2, cmp)
				case hasName(e1):
					c.print(e1, cmp)
				case hasName(e2):
					c.print(e2, cmp)
				default:
					continue
				}
				g.use("consts.print_expr")
			case 2: // fixed array read through a name, possibly negated
				neg := g.chance(3, "negidx")
				var ix Expr
				if neg {
					k := c.indexName(1, n) // -k in [-n, -1]
					ix = &Un{T: i32, Op: "-", X: &Var{T: i32, Name: k.name}}
					g.use("consts.fixed_index_negated_name")
				} else {
					k := c.indexName(-n, n-1)
					ix = &Var{T: i32, Name: k.name}
					g.use("consts.fixed_index_name")
				}
				c.print(&Index{T: et, X: &Var{T: fat, Name: "fa"}, I: ix})
			case 3: // fixed array write through a name, then dump
				k := c.indexName(-n, n-1)
				ev, _ := c.expr(et, 1)
				c.body = append(c.body, &Assign{LHS: &Index{T: et, X: &Var{T: fat, Name: "fa"}, I: &Var{T: i32, Name: k.name}}, Op: rapid.SampledFrom([]string{"=", "+=", "="}).Draw(t, "wop"), RHS: ev})
				var all []Expr
				for i := 0; i < n; i++ {
					all = append(all, &Index{T: et, X: &Var{T: fat, Name: "fa"}, I: &Lit{T: i32, I: big.NewInt(int64(i))}})
				}
				c.print(all...)
				g.use("consts.fixed_write_name")
			case 4: // dynamic array read through a name / name arithmetic
				k := c.indexName(0, n-1)
				var ix Expr = &Var{T: i32, Name: k.name}
				if g.chance(2, "dneg") && k.v.Int64() >= 1 {
					ix = &Un{T: i32, Op: "-", X: ix}
				}
				c.print(&Index{T: et, X: &Var{T: dat, Name: "da"}, I: ix})
				g.use("consts.dyn_index_name")
			case 5: // range loop with bounds (and step) from names
				lo := c.indexName(-3, 6)
				hi := c.indexName(-3, 9)
				acc := g.fresh("acc")
				c.body = append(c.body, &Let{Name: acc, T: i32, Init: &Lit{T: i32, I: big.NewInt(0)}})
				iv := g.fresh("i")
				loop := &ForRange{Var: iv, T: i32, Lo: &Var{T: i32, Name: lo.name}, Hi: &Var{T: i32, Name: hi.name}, Inclusive: g.chance(2, "incl")}
				if g.chance(2, "step") && g.use("consts.range_step") {
					st := c.indexName(1, 3)
					var se Expr = &Var{T: i32, Name: st.name}
					if g.chance(2, "negstep") {
						se = &Un{T: i32, Op: "-", X: se}
						loop.Lo, loop.Hi = loop.Hi, loop.Lo
					}
					loop.Step = se
				}
				loop.Body = []Stmt{&Assign{LHS: &Var{T: i32, Name: acc}, Op: "=", RHS: &Bin{T: i32, Op: "+", L: &Bin{T: i32, Op: "*", L: &Var{T: i32, Name: acc}, R: &Lit{T: i32, I: big.NewInt(3)}}, R: &Var{T: i32, Name: iv}}}}
				c.body = append(c.body, loop)
				c.print(&Var{T: i32, Name: acc})
				g.use("consts.range_bounds")
			case 6: // match on a name against literal patterns
				ty := rapid.SampledFrom(types).Draw(t, "mtype")
				cands := c.ofType(ty, nil)
				if len(cands) == 0 {
					continue
				}
				k := cands[g.intRange(0, len(cands)-1, "mname")]
				m := &Match{X: &Var{T: ty, Name: k.name}, HasDef: true, Default: []Stmt{&Print{Args: []Expr{&Lit{T: TStr, S: "other"}}}}}
				seen := map[string]bool{}
				for a := 0; a < g.intRange(1, 3, "narms"); a++ {
					pv := new(big.Int).Add(k.v, big.NewInt(int64(g.intRange(-1, 1, "pd"))))
					if !inRange(ty, pv) || seen[pv.String()] {
						continue
					}
					seen[pv.String()] = true
					m.Arms = append(m.Arms, MatchArm{Pat: &Lit{T: ty, I: pv}, Body: []Stmt{&Print{Args: []Expr{&Lit{T: TStr, S: fmt.Sprintf("arm%d", a)}}}}})
				}
				if len(m.Arms) == 0 {
					continue
				}
				c.body = append(c.body, m)
				g.use("consts.match_name")
			case 7: // constant condition
				ty := rapid.SampledFrom(types).Draw(t, "ctype")
				e1, _ := c.expr(ty, 1)
				e2, _ := c.expr(ty, 1)
				if !hasName(e1) && !hasName(e2) {
					continue
				}
				cond := &Bin{T: TBool, Op: rapid.SampledFrom([]string{"<", "<=", "==", "!=", ">", ">="}).Draw(t, "ccmp"), L: e1, R: e2}
				c.body = append(c.body, &If{Cond: cond, Then: []Stmt{&Print{Args: []Expr{&Lit{T: TStr, S: "then"}}}}, Else: []Stmt{&Print{Args: []Expr{&Lit{T: TStr, S: "else"}}}}})
				g.use("consts.condition")
			case 8: // a reassigned let: value known until a run-time dependent assignment
				var muts []*cval
				for _, v := range c.vals {
					if v.mut && v.known {
						muts = append(muts, v)
					}
				}
				if len(muts) == 0 {
					continue
				}
				m := muts[g.intRange(0, len(muts)-1, "mut")]
				c.print(&Var{T: m.t, Name: m.name})
				e, v := c.expr(m.t, 1)
				if g.chance(2, "inbranch") {
					// assigned in a branch that is taken or not: afterwards the value depends on the branch
					flag := c.indexName(0, 1)
					c.body = append(c.body, &If{Cond: &Bin{T: TBool, Op: "==", L: &Var{T: i32, Name: flag.name}, R: &Lit{T: i32, I: big.NewInt(1)}}, Then: []Stmt{&Assign{LHS: &Var{T: m.t, Name: m.name}, Op: "=", RHS: e}}})
					if flag.v.Int64() == 1 {
						m.v = v
					}
				} else {
					c.body = append(c.body, &Assign{LHS: &Var{T: m.t, Name: m.name}, Op: "=", RHS: e})
					m.v = v
				}
				c.print(&Var{T: m.t, Name: m.name})
				g.use("consts.reassign")
			case 9: // narrow run-time arithmetic next to folded arithmetic of the same shape
				ty := rapid.SampledFrom([]*Type{IntT(8, true), IntT(8, false), IntT(16, true), IntT(16, false)}).Draw(t, "ntype")
				a := c.intLit(ty)
				b := c.intLit(ty)
				x := g.fresh("x")
				c.body = append(c.body, &Let{Name: x, T: ty, Init: a})
				op := rapid.SampledFrom([]string{"+", "-", "*"}).Draw(t, "nop")
				c.body = append(c.body, &Assign{LHS: &Var{T: ty, Name: x}, Op: "=", RHS: &Bin{T: ty, Op: op, L: &Var{T: ty, Name: x}, R: b}})
				c.print(&Var{T: ty, Name: x}, &Bin{T: TBool, Op: "<", L: &Var{T: ty, Name: x}, R: a})
				g.use("consts.narrow_wrap")
			case 10: // while loop bounded by a name
				k := c.indexName(0, 6)
				w := g.fresh("w")
				c.body = append(c.body, &Let{Name: w, T: i32, Init: &Lit{T: i32, I: big.NewInt(0)}},
					&While{Cond: &Bin{T: TBool, Op: "<", L: &Var{T: i32, Name: w}, R: &Var{T: i32, Name: k.name}}, Body: []Stmt{&Assign{LHS: &Var{T: i32, Name: w}, Op: "=", RHS: &Bin{T: i32, Op: "+", L: &Var{T: i32, Name: w}, R: &Lit{T: i32, I: big.NewInt(1)}}}}})
				c.print(&Var{T: i32, Name: w})
				g.use("consts.while_bound")
			case 12, 13: // an index computed by a cast of a name - also casts that change the value (wrap-around)
				vals := []int64{-1, -2, int64(-n), 0, 1, int64(n - 1), 254, 255, 256, 65535, 127, 128}
				v := big.NewInt(vals[g.intRange(0, len(vals)-1, "castidx_v")])
				k := c.declare(g.intRange(0, 1, "castidx_kind"), i32, &Lit{T: i32, I: v}, v, "k")
				// mostly the casts whose value changes: negative -> unsigned, 128..255 -> i8
				cands := []*Type{IntT(8, false), IntT(8, true), IntT(16, false), IntT(64, true), IntT(32, false)}
				if v.Sign() < 0 {
					cands = []*Type{IntT(8, false), IntT(16, false), IntT(32, false), IntT(8, false), IntT(64, true)}
				} else if v.Int64() >= 127 && v.Int64() <= 256 {
					cands = []*Type{IntT(8, true), IntT(8, true), IntT(8, true), IntT(8, false), IntT(16, false)}
				}
				t2 := rapid.SampledFrom(cands).Draw(t, "castidx_t")
				ix := &Cast{T: t2, X: &Var{T: i32, Name: k.name}}
				arrChoice := []int{0, 1, 1, 2, 2}[g.intRange(0, 4, "castidx_arr")]
				if arrChoice == 2 && !et.Equal(i32) {
					// an array literal outside a typed context takes the default literal type
					arrChoice = 1
				}
				switch arrChoice {
				case 0:
					c.print(&Index{T: et, X: &Var{T: fat, Name: "fa"}, I: ix})
				case 1:
					c.print(&Index{T: et, X: &Var{T: dat, Name: "da"}, I: ix})
				default:
					c.print(&Index{T: et, X: mk(dat), I: ix})
				}
				g.use("consts.index_through_cast")
			case 14, 15: // a reassigned `let` where a compiler may evaluate early: the value it has at that point counts, not a later one
				if !g.use("consts.let_used_then_reassigned") {
					continue
				}
				kind := g.intRange(0, 3, "stalekind")
				if kind == 1 && !et.Equal(i32) {
					kind = 0 // an array literal outside a typed context takes the default literal type
				}
				var v1, v2 int64
				switch kind {
				case 0, 1:
					v1 = int64(g.intRange(0, n-1, "stale_v1"))
					v2 = int64(g.intRange(0, n-1, "stale_v2"))
					if kind == 0 && g.chance(3, "stale_neg") {
						v2 = -int64(g.intRange(1, n, "stale_v2neg"))
					}
				case 2:
					v1 = int64(g.intRange(1, 3, "stale_step1"))
					v2 = -int64(g.intRange(1, 3, "stale_step2"))
					if g.chance(2, "stale_stepswap") {
						v1, v2 = v2, v1
					}
				case 3:
					v1 = int64(g.intRange(-2, 5, "stale_pat1"))
					v2 = v1 + int64(g.intRange(1, 2, "stale_patd"))
				}
				m := c.declare(2, i32, &Lit{T: i32, I: big.NewInt(v1)}, big.NewInt(v1), "m")
				mv := &Var{T: i32, Name: m.name}
				useAt := func(v int64) {
					switch kind {
					case 0:
						c.print(&Index{T: et, X: &Var{T: fat, Name: "fa"}, I: mv})
					case 1:
						c.print(&Index{T: et, X: mk(dat), I: mv}, &Index{T: et, X: &Var{T: dat, Name: "da"}, I: mv})
					case 2:
						acc := g.fresh("acc")
						iv := g.fresh("i")
						c.body = append(c.body, &Let{Name: acc, T: i32, Init: &Lit{T: i32, I: big.NewInt(0)}})
						lo, hi := int64(g.intRange(-2, 2, "stale_lo")), int64(g.intRange(3, 8, "stale_hi"))
						if v < 0 {
							lo, hi = hi, lo
						}
						loop := &ForRange{Var: iv, T: i32, Lo: &Lit{T: i32, I: big.NewInt(lo)}, Hi: &Lit{T: i32, I: big.NewInt(hi)}, Inclusive: g.chance(2, "stale_incl"), Step: mv}
						loop.Body = []Stmt{&Assign{LHS: &Var{T: i32, Name: acc}, Op: "=", RHS: &Bin{T: i32, Op: "+", L: &Bin{T: i32, Op: "*", L: &Var{T: i32, Name: acc}, R: &Lit{T: i32, I: big.NewInt(3)}}, R: &Var{T: i32, Name: iv}}}}
						c.body = append(c.body, loop)
						c.print(&Var{T: i32, Name: acc})
					case 3:
						x := c.declare(1, i32, &Lit{T: i32, I: big.NewInt(v1)}, big.NewInt(v1), "x")
						c.body = append(c.body, &Match{X: &Var{T: i32, Name: x.name}, HasDef: true,
							Arms:    []MatchArm{{Pat: mv, Body: []Stmt{&Print{Args: []Expr{&Lit{T: TStr, S: "same"}}}}}},
							Default: []Stmt{&Print{Args: []Expr{&Lit{T: TStr, S: "different"}}}}})
					}
				}
				useAt(v1)
				c.body = append(c.body, &Assign{LHS: mv, Op: "=", RHS: &Lit{T: i32, I: big.NewInt(v2)}})
				m.v = big.NewInt(v2)
				useAt(v2)
			case 11: // new declaration in the middle (initialiser over earlier names)
				ty := rapid.SampledFrom(types).Draw(t, "dtype2")
				e, v := c.expr(ty, 2)
				nv := c.declare(g.intRange(0, 1, "dkind2"), ty, e, v, "k")
				c.print(&Var{T: ty, Name: nv.name})
			}
		}
		// finally every name
		var all []Expr
		for _, v := range c.vals {
			all = append(all, &Var{T: v.t, Name: v.name})
			if len(all) == 4 {
				c.print(all...)
				all = nil
			}
		}
		if len(all) > 0 {
			c.print(all...)
		}
		f := &Func{Name: fmt.Sprintf("s%d", sidx), Body: c.body}
		g.p.Funcs = append(g.p.Funcs, f)
		calls = append(calls, &ExprStmt{X: &Call{T: TVoid, Fn: f.Name}})
	}
	calls = append(calls, &Print{Args: []Expr{&Lit{T: TStr, S: "end"}}})
	g.p.Funcs = append(g.p.Funcs, &Func{Name: "main", Body: calls})
	return g.p
}
