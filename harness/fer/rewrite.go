package fer

import (
	"fmt"
	"math/big"
)

// Meaning-preserving rewrites (property C09).  Rewrite returns a deep copy of p in which
// the candidate sites chosen by pick have been rewritten:
//
//	R1  literal                    -> call of a fresh function returning that literal
//	R2  pure, total subexpression  -> fresh `const` bound directly before the statement
//	R3  never-modified `let`       -> `const`
//	R4  run of statements          -> `if true { run }`
//
// Every rule is applied only where it preserves meaning by construction (see the
// individual comments); the sites that were rewritten are returned as labels.

type RewriteSite struct {
	Rule string // R1 R2 R3 R4
	What string // short description (type, expression class)
}

type rewriter struct {
	pick    func(RewriteSite) bool
	applied []string
	newFns  []*Func
	nfn     int
	ntmp    int
	mutated map[string]bool
	// hoisting state of the statement being rewritten
	hoistOK bool
	hoisted []Stmt
	// context flags
	noLit int // >0: literals here must stay literals
	// wrapClosures: R4 may move the creation of a closure into a nested block
	wrapClosures bool
}

func Rewrite(p *Program, pick func(RewriteSite) bool, wrapClosures bool) (*Program, []string) {
	rw := &rewriter{pick: pick, wrapClosures: wrapClosures}
	q := &Program{Types: p.Types, Globals: p.Globals, Features: p.Features}
	for _, f := range p.Funcs {
		rw.mutated = map[string]bool{}
		collectMutated(f.Body, rw.mutated)
		nf := *f
		nf.Body = rw.stmts(f.Body)
		q.Funcs = append(q.Funcs, &nf)
	}
	// helper functions go first (declaration order does not matter, but keeps main last)
	q.Funcs = append(rw.newFns, q.Funcs...)
	return q, rw.applied
}

// rootVar returns the variable at the root of a place expression ("" if none).
func rootVar(e Expr) string {
	for {
		switch x := e.(type) {
		case *Var:
			return x.Name
		case *FieldX:
			e = x.X
		case *Index:
			e = x.X
		case *Paren:
			e = x.X
		case *Deref:
			e = x.X
		default:
			return ""
		}
	}
}

// collectMutated gathers every variable that may be modified after its declaration:
// assignment / compound assignment / ++ -- through it, `&'` borrow of it, append to it,
// receiver of a method call, or iteration source.  Closure bodies are included.
func collectMutated(body []Stmt, out map[string]bool) {
	var ex func(e Expr)
	var sts func(ss []Stmt)
	mark := func(e Expr) {
		if n := rootVar(e); n != "" {
			out[n] = true
		}
	}
	ex = func(e Expr) {
		switch x := e.(type) {
		case nil:
		case *Bin:
			ex(x.L)
			ex(x.R)
		case *Un:
			ex(x.X)
		case *Cast:
			ex(x.X)
		case *Call:
			for _, a := range x.Args {
				ex(a)
			}
		case *MethodCall:
			mark(x.Recv)
			ex(x.Recv)
			for _, a := range x.Args {
				ex(a)
			}
		case *FieldX:
			ex(x.X)
		case *Index:
			ex(x.X)
			ex(x.I)
		case *StructLit:
			for _, a := range x.Fields {
				ex(a)
			}
		case *ArrLit:
			for _, a := range x.Elems {
				ex(a)
			}
		case *LenX:
			ex(x.X)
		case *Borrow:
			if x.T != nil && x.T.Mut {
				mark(x.X)
			}
			ex(x.X)
		case *Paren:
			ex(x.X)
		case *Deref:
			ex(x.X)
		case *CatchCall:
			ex(x.Call)
			sts(x.Handler)
			ex(x.Fallback)
		case *FnLit:
			sts(x.Body)
		}
	}
	sts = func(ss []Stmt) {
		for _, s := range ss {
			switch x := s.(type) {
			case *Let:
				ex(x.Init)
			case *Assign:
				mark(x.LHS)
				ex(x.LHS)
				ex(x.RHS)
			case *IncDec:
				mark(x.LHS)
				ex(x.LHS)
			case *If:
				ex(x.Cond)
				sts(x.Then)
				sts(x.Else)
			case *While:
				ex(x.Cond)
				sts(x.Body)
			case *ForRange:
				ex(x.Lo)
				ex(x.Hi)
				ex(x.Step)
				sts(x.Body)
			case *ForIn:
				ex(x.Arr)
				sts(x.Body)
			case *Match:
				ex(x.X)
				for _, a := range x.Arms {
					sts(a.Body)
				}
				sts(x.Default)
			case *Return:
				ex(x.X)
			case *ReturnErr:
				ex(x.X)
			case *ExprStmt:
				ex(x.X)
			case *Print:
				for _, a := range x.Args {
					ex(a)
				}
			case *Append:
				mark(x.Arr)
				ex(x.Arr)
				ex(x.Val)
			case *Block:
				sts(x.Body)
			}
		}
	}
	sts(body)
}

// pureTotal: evaluating e has no effect, cannot panic and reads only variables
// (no calls, no division, no indexing of run-time sized sequences).
func pureTotal(e Expr) bool {
	switch x := e.(type) {
	case *Lit, *EnumVal:
		return true
	case *Var:
		return x.T.K != KRef && x.T.K != KFn
	case *Bin:
		if x.Op == "/" || x.Op == "%" {
			return false
		}
		return pureTotal(x.L) && pureTotal(x.R)
	case *Un:
		return pureTotal(x.X)
	case *Cast:
		return pureTotal(x.X)
	case *Paren:
		return pureTotal(x.X)
	case *FieldX:
		return pureTotal(x.X)
	}
	return false
}

func hasEffects(e Expr) bool {
	eff := false
	var ex func(e Expr)
	ex = func(e Expr) {
		switch x := e.(type) {
		case nil:
		case *Call, *MethodCall, *CatchCall, *FnLit, *Borrow:
			eff = true
		case *Bin:
			ex(x.L)
			ex(x.R)
		case *Un:
			ex(x.X)
		case *Cast:
			ex(x.X)
		case *FieldX:
			ex(x.X)
		case *Index:
			ex(x.X)
			ex(x.I)
		case *StructLit:
			for _, a := range x.Fields {
				ex(a)
			}
		case *ArrLit:
			for _, a := range x.Elems {
				ex(a)
			}
		case *LenX:
			ex(x.X)
		case *Paren:
			ex(x.X)
		case *Deref:
			ex(x.X)
		}
	}
	ex(e)
	return eff
}

func (rw *rewriter) litFn(l *Lit) Expr {
	rw.nfn++
	name := fmt.Sprintf("k%d_%s", rw.nfn, l.T.String())
	rw.newFns = append(rw.newFns, &Func{Name: name, Ret: l.T, Body: []Stmt{&Return{X: l}}})
	return &Call{T: l.T, Fn: name}
}

// expr rewrites an expression.  shortCircuit is true below the right operand of && / ||
// (hoisting from there would evaluate something the original might not evaluate).
func (rw *rewriter) expr(e Expr, cond bool) Expr {
	switch x := e.(type) {
	case nil:
		return nil
	case *Lit:
		if rw.noLit == 0 && (x.T.K == KInt && !x.T.Byte || x.T.K == KBool || x.T.K == KStr) && rw.pick(RewriteSite{"R1", x.T.String()}) {
			rw.applied = append(rw.applied, "R1:"+x.T.String())
			return rw.litFn(x)
		}
		return x
	case *Var, *EnumVal:
		return x
	}
	// R2: hoist a pure, total, non-trivial subexpression of value type
	if rw.hoistOK && !cond {
		if b, ok := e.(*Bin); ok && pureTotal(b) && (b.T.K == KInt || b.T.K == KBool) && rw.pick(RewriteSite{"R2", b.T.String()}) {
			rw.ntmp++
			name := fmt.Sprintf("t%dh", rw.ntmp)
			// the hoisted expression itself may be rewritten further (R1 inside), but not hoisted again
			save := rw.hoistOK
			rw.hoistOK = false
			init := rw.expr(b, false)
			rw.hoistOK = save
			rw.hoisted = append(rw.hoisted, &Let{Name: name, T: b.T, Init: init, Const: true})
			rw.applied = append(rw.applied, "R2:"+b.T.String())
			return &Var{T: b.T, Name: name}
		}
	}
	switch x := e.(type) {
	case *Bin:
		n := *x
		n.L = rw.expr(x.L, cond)
		n.R = rw.expr(x.R, cond || x.Op == "&&" || x.Op == "||")
		return &n
	case *Un:
		n := *x
		n.X = rw.expr(x.X, cond)
		return &n
	case *Cast:
		n := *x
		n.X = rw.expr(x.X, cond)
		return &n
	case *Call:
		n := *x
		n.Args = rw.exprs(x.Args, cond)
		return &n
	case *MethodCall:
		n := *x
		n.Recv = rw.expr(x.Recv, cond)
		n.Args = rw.exprs(x.Args, cond)
		return &n
	case *FieldX:
		n := *x
		n.X = rw.expr(x.X, cond)
		return &n
	case *Index:
		n := *x
		n.X = rw.expr(x.X, cond)
		// index expressions keep their literals: a literal index has its own meaning
		// (negative = from the end) and fixed arrays demand compile-time constants
		rw.noLit++
		save := rw.hoistOK
		if x.X.Type() != nil && recvBase(x.X.Type()).K == KFixed {
			rw.hoistOK = false
		}
		n.I = rw.expr(x.I, cond)
		rw.hoistOK = save
		rw.noLit--
		return &n
	case *StructLit:
		n := *x
		n.Fields = rw.exprs(x.Fields, cond)
		return &n
	case *ArrLit:
		n := *x
		n.Elems = rw.exprs(x.Elems, cond)
		return &n
	case *LenX:
		n := *x
		n.X = rw.expr(x.X, cond)
		return &n
	case *Borrow:
		n := *x
		n.X = rw.expr(x.X, cond)
		return &n
	case *Paren:
		return &Paren{X: rw.expr(x.X, cond)}
	case *Deref:
		n := *x
		n.X = rw.expr(x.X, cond)
		return &n
	case *CatchCall:
		n := *x
		c := rw.expr(x.Call, cond).(*Call)
		n.Call = c
		save, sh := rw.hoistOK, rw.hoisted
		rw.hoistOK = false
		n.Handler = rw.stmts(x.Handler)
		rw.hoisted = sh
		n.Fallback = rw.expr(x.Fallback, true)
		rw.hoistOK = save
		return &n
	case *FnLit:
		n := *x
		save, sh, sm := rw.hoistOK, rw.hoisted, rw.mutated
		rw.hoistOK = false
		n.Body = rw.stmts(x.Body)
		rw.hoistOK, rw.hoisted, rw.mutated = save, sh, sm
		return &n
	}
	return e
}

func (rw *rewriter) exprs(es []Expr, cond bool) []Expr {
	out := make([]Expr, len(es))
	for i, e := range es {
		out[i] = rw.expr(e, cond)
	}
	return out
}

// stmtHoistable: hoisting in front of s is sound when nothing in s can modify a
// variable before the hoisted expression would have been evaluated: s has no calls,
// closures or borrows at all.
func stmtHoistable(s Stmt) bool {
	switch x := s.(type) {
	case *Let:
		return !hasEffects(x.Init)
	case *Assign:
		return !hasEffects(x.LHS) && !hasEffects(x.RHS)
	case *Print:
		for _, a := range x.Args {
			if hasEffects(a) {
				return false
			}
		}
		return true
	case *Return:
		return x.X != nil && !hasEffects(x.X)
	case *If:
		return !hasEffects(x.Cond)
	case *Match:
		return !hasEffects(x.X)
	}
	return false
}

func (rw *rewriter) stmt(s Stmt) []Stmt {
	saveOK, saveH := rw.hoistOK, rw.hoisted
	rw.hoistOK, rw.hoisted = stmtHoistable(s), nil
	var out Stmt
	switch x := s.(type) {
	case *Let:
		n := *x
		if x.Const {
			// (a const whose initialiser stops being a compile-time constant may no longer serve
			// as a fixed-array index: the checker discards variants rejected with T0028 only)
			n.Init = rw.expr(x.Init, false)
		} else {
			n.Init = rw.expr(x.Init, false)
			// R3
			if !rw.mutated[x.Name] && x.T != nil && x.T.K != KRef && x.T.K != KFn && rw.pick(RewriteSite{"R3", x.T.String()}) {
				n.Const = true
				rw.applied = append(rw.applied, "R3:"+kindName(x.T))
			}
		}
		out = &n
	case *Assign:
		n := *x
		rw.noLit++
		n.LHS = rw.expr(x.LHS, true)
		rw.noLit--
		n.RHS = rw.expr(x.RHS, false)
		out = &n
	case *IncDec:
		out = x
	case *If:
		n := *x
		// a literal condition stays literal (return analysis may depend on it)
		if _, isLit := x.Cond.(*Lit); isLit {
			n.Cond = x.Cond
		} else {
			n.Cond = rw.expr(x.Cond, false)
		}
		h := rw.hoisted
		rw.hoistOK = false
		n.Then = rw.stmts(x.Then)
		if x.Else != nil {
			n.Else = rw.stmts(x.Else)
		}
		rw.hoisted = h
		out = &n
	case *While:
		n := *x
		rw.hoistOK = false
		if _, isLit := x.Cond.(*Lit); isLit {
			n.Cond = x.Cond
		} else {
			n.Cond = rw.expr(x.Cond, false)
		}
		n.Body = rw.stmts(x.Body)
		rw.hoisted = nil
		out = &n
	case *ForRange:
		n := *x
		rw.hoistOK = false
		n.Lo = rw.expr(x.Lo, false)
		n.Hi = rw.expr(x.Hi, false)
		n.Step = rw.expr(x.Step, false)
		n.Body = rw.stmts(x.Body)
		rw.hoisted = nil
		out = &n
	case *ForIn:
		n := *x
		rw.hoistOK = false
		n.Arr = rw.expr(x.Arr, false)
		n.Body = rw.stmts(x.Body)
		rw.hoisted = nil
		out = &n
	case *Match:
		n := *x
		n.X = rw.expr(x.X, false)
		h := rw.hoisted
		rw.hoistOK = false
		n.Arms = nil
		for _, a := range x.Arms {
			n.Arms = append(n.Arms, MatchArm{Pat: a.Pat, Body: rw.stmts(a.Body)})
		}
		if x.HasDef {
			n.Default = rw.stmts(x.Default)
			if n.Default == nil {
				n.Default = []Stmt{}
			}
		}
		rw.hoisted = h
		out = &n
	case *Return:
		out = &Return{X: rw.expr(x.X, false)}
	case *ReturnErr:
		out = &ReturnErr{X: rw.expr(x.X, false)}
	case *ExprStmt:
		out = &ExprStmt{X: rw.expr(x.X, false)}
	case *Print:
		out = &Print{Args: rw.exprs(x.Args, false)}
	case *Append:
		n := *x
		n.Val = rw.expr(x.Val, false)
		out = &n
	case *Block:
		rw.hoistOK = false
		out = &Block{Body: rw.stmts(x.Body)}
		rw.hoisted = nil
	default:
		out = s
	}
	res := append(rw.hoisted, out)
	rw.hoistOK, rw.hoisted = saveOK, saveH
	return res
}

func kindName(t *Type) string {
	switch t.K {
	case KInt:
		return t.String()
	case KStruct:
		return "struct"
	case KFixed:
		return "fixed"
	case KDyn:
		return "dyn"
	case KEnum:
		return "enum"
	}
	return t.String()
}

func declaresClosure(ss []Stmt) bool {
	for _, s := range ss {
		if l, ok := s.(*Let); ok {
			if _, isFn := l.Init.(*FnLit); isFn || (l.T != nil && l.T.K == KFn) {
				return true
			}
		}
	}
	return false
}

// declaredIn lists the names declared at the top level of a statement run.
func declaredIn(ss []Stmt) map[string]bool {
	m := map[string]bool{}
	for _, s := range ss {
		if l, ok := s.(*Let); ok {
			m[l.Name] = true
		}
	}
	return m
}

func usesAny(ss []Stmt, names map[string]bool) bool {
	if len(names) == 0 {
		return false
	}
	found := false
	var ex func(e Expr)
	var sts func(ss []Stmt)
	ex = func(e Expr) {
		switch x := e.(type) {
		case nil:
		case *Var:
			if names[x.Name] {
				found = true
			}
		case *Bin:
			ex(x.L)
			ex(x.R)
		case *Un:
			ex(x.X)
		case *Cast:
			ex(x.X)
		case *Call:
			if names[x.Fn] {
				found = true
			}
			for _, a := range x.Args {
				ex(a)
			}
		case *MethodCall:
			ex(x.Recv)
			for _, a := range x.Args {
				ex(a)
			}
		case *FieldX:
			ex(x.X)
		case *Index:
			ex(x.X)
			ex(x.I)
		case *StructLit:
			for _, a := range x.Fields {
				ex(a)
			}
		case *ArrLit:
			for _, a := range x.Elems {
				ex(a)
			}
		case *LenX:
			ex(x.X)
		case *Borrow:
			ex(x.X)
		case *Paren:
			ex(x.X)
		case *Deref:
			ex(x.X)
		case *CatchCall:
			ex(x.Call)
			sts(x.Handler)
			ex(x.Fallback)
		case *FnLit:
			sts(x.Body)
		}
	}
	sts = func(ss []Stmt) {
		for _, s := range ss {
			switch x := s.(type) {
			case *Let:
				ex(x.Init)
			case *Assign:
				ex(x.LHS)
				ex(x.RHS)
			case *IncDec:
				ex(x.LHS)
			case *If:
				ex(x.Cond)
				sts(x.Then)
				sts(x.Else)
			case *While:
				ex(x.Cond)
				sts(x.Body)
			case *ForRange:
				ex(x.Lo)
				ex(x.Hi)
				ex(x.Step)
				sts(x.Body)
			case *ForIn:
				ex(x.Arr)
				sts(x.Body)
			case *Match:
				ex(x.X)
				for _, a := range x.Arms {
					sts(a.Body)
				}
				sts(x.Default)
			case *Return:
				ex(x.X)
			case *ReturnErr:
				ex(x.X)
			case *ExprStmt:
				ex(x.X)
			case *Print:
				for _, a := range x.Args {
					ex(a)
				}
			case *Append:
				ex(x.Arr)
				ex(x.Val)
			case *Block:
				sts(x.Body)
			}
		}
	}
	sts(ss)
	return found
}

// jumpsOut: the run contains a return, or a break/continue that leaves the run.
func jumpsOut(ss []Stmt, inLoop bool) bool {
	for _, s := range ss {
		switch x := s.(type) {
		case *Return, *ReturnErr:
			return true
		case *Break, *Continue:
			if !inLoop {
				return true
			}
		case *If:
			if jumpsOut(x.Then, inLoop) || jumpsOut(x.Else, inLoop) {
				return true
			}
		case *While:
			if jumpsOut(x.Body, true) {
				return true
			}
		case *ForRange:
			if jumpsOut(x.Body, true) {
				return true
			}
		case *ForIn:
			if jumpsOut(x.Body, true) {
				return true
			}
		case *Match:
			for _, a := range x.Arms {
				if jumpsOut(a.Body, inLoop) {
					return true
				}
			}
			if jumpsOut(x.Default, inLoop) {
				return true
			}
		case *Block:
			if jumpsOut(x.Body, inLoop) {
				return true
			}
		case *Let:
			if c, ok := x.Init.(*CatchCall); ok && jumpsOut(c.Handler, inLoop) {
				return true
			}
		}
	}
	return false
}

func (rw *rewriter) stmts(ss []Stmt) []Stmt {
	if ss == nil {
		return nil
	}
	var out []Stmt
	for _, s := range ss {
		out = append(out, rw.stmt(s)...)
	}
	// R4: wrap the first admissible run out[i:j): it declares nothing used afterwards and does not
	// jump out (a return inside would change what the return analysis has to prove)
	if len(out) >= 1 && rw.pick(RewriteSite{"R4", "run"}) {
		for i := 0; i < len(out); i++ {
			j := i
			for j < len(out) {
				run := out[i : j+1]
				if jumpsOut(run, false) || usesAny(out[j+1:], declaredIn(run)) || (!rw.wrapClosures && declaresClosure(run)) {
					break
				}
				j++
			}
			if j > i {
				run := append([]Stmt(nil), out[i:j]...)
				wrapped := &If{Cond: &Lit{T: TBool, B: true}, Then: run}
				out = append(append(append([]Stmt(nil), out[:i]...), wrapped), out[j:]...)
				rw.applied = append(rw.applied, fmt.Sprintf("R4:%d", len(run)))
				break
			}
		}
	}
	return out
}

var _ = big.NewInt
