package fer

import (
	"fmt"
	"math/big"

	"pgregory.net/rapid"
)

// Config selects the language features a generated program may use.
type Config struct {
	Wide      bool // i128/u128/i256/u256
	Structs   bool
	Methods   bool
	Enums     bool
	Fixed     bool
	Dyn       bool
	Str       bool
	Refs      bool
	Closures  bool
	Results   bool
	Recursion bool
	Narrow    bool // 8/16-bit types
	MaxScen   int
	// Use gates a feature by name (known-finding exclusion); nil = everything allowed.
	Use func(feature string) bool
}

type gvar struct {
	name string
	t    *Type
	mut  bool
}

type G struct {
	t        *rapid.T
	cfg      Config
	p        *Program
	n        int
	vars     []gvar
	ints     []*Type
	structs  []*Type
	enums    []*Type
	helpers  []*Func // pure functions callable from expressions: params ints/bools, ret int
	incFns   map[string]*Func
	tryFns   []*Func
	updFns   []*Func
	pickFns  []*Func
	depth    int
	inLoop   bool
	captured map[string]bool
	nest     int // statement nesting depth inside the current scenario
	dstFns   map[string]bool
}

func (g *G) use(f string) bool {
	if g.cfg.Use != nil && !g.cfg.Use(f) {
		return false
	}
	g.p.Features[f]++
	return true
}

func (g *G) fresh(prefix string) string {
	g.n++
	return fmt.Sprintf("%s%d", prefix, g.n)
}

func (g *G) intRange(lo, hi int, label string) int { return rapid.IntRange(lo, hi).Draw(g.t, label) }
func (g *G) chance(n int, label string) bool       { return rapid.IntRange(0, n-1).Draw(g.t, label) == 0 }

func Generate(t *rapid.T, cfg Config) *Program {
	g := &G{t: t, cfg: cfg, p: &Program{Features: map[string]int{}}, incFns: map[string]*Func{}, captured: map[string]bool{}}
	g.ints = []*Type{IntT(32, true), IntT(64, true), IntT(32, false), IntT(64, false)}
	if cfg.Narrow {
		g.ints = append(g.ints, IntT(8, true), IntT(16, true), IntT(8, false), IntT(16, false))
	}
	if cfg.Wide && g.use("wide_ints") {
		g.ints = append(g.ints, IntT(128, true), IntT(128, false), IntT(256, true), IntT(256, false))
	}
	g.genTypes()
	g.genHelpers()
	nscen := g.intRange(1, max(cfg.MaxScen, 1), "nscen")
	var calls []Stmt
	for i := 0; i < nscen; i++ {
		f := g.genScenario(i)
		g.p.Funcs = append(g.p.Funcs, f)
		calls = append(calls, &ExprStmt{X: &Call{T: TVoid, Fn: f.Name}})
	}
	calls = append(calls, &Print{Args: []Expr{&Lit{T: TStr, S: "end"}}})
	g.p.Funcs = append(g.p.Funcs, &Func{Name: "main", Body: calls})
	g.p.Prune()
	return g.p
}

func (g *G) pickInt(label string) *Type { return rapid.SampledFrom(g.ints).Draw(g.t, label) }

func (g *G) genTypes() {
	if g.cfg.Structs && g.use("structs") {
		ns := g.intRange(1, 2, "nstructs")
		for i := 0; i < ns; i++ {
			st := &Type{K: KStruct, Name: fmt.Sprintf("S%d", i)}
			nf := g.intRange(2, 4, "nfields")
			for j := 0; j < nf; j++ {
				var ft *Type
				if i > 0 && j == 1 && g.chance(2, "nested") && g.use("structs.nested") {
					ft = g.structs[0]
				} else if g.chance(5, "boolfield") {
					ft = TBool
				} else {
					ft = g.pickInt("ftype")
				}
				st.Fields = append(st.Fields, Field{Name: fmt.Sprintf("F%d", j), T: ft})
			}
			// ensure at least one int field
			if st.Fields[0].T.K != KInt {
				st.Fields[0].T = g.pickInt("ftype0")
			}
			g.structs = append(g.structs, st)
			g.p.Types = append(g.p.Types, st)
		}
	}
	if g.cfg.Enums && g.use("enums") {
		e := &Type{K: KEnum, Name: "E0"}
		nv := g.intRange(2, 4, "nvariants")
		for j := 0; j < nv; j++ {
			e.Variants = append(e.Variants, fmt.Sprintf("V%d", j))
		}
		g.enums = append(g.enums, e)
		g.p.Types = append(g.p.Types, e)
	}
}

// ---------------------------------------------------------------- literals

func (g *G) intLit(t *Type) *Lit {
	lo, hi := t.Range()
	var v *big.Int
	switch g.intRange(0, 9, "litkind") {
	case 0:
		v = new(big.Int).Set(hi)
	case 1:
		v = new(big.Int).Set(lo)
	case 2:
		v = new(big.Int).Sub(hi, big.NewInt(int64(g.intRange(1, 3, "d"))))
	case 3:
		v = new(big.Int).Add(lo, big.NewInt(int64(g.intRange(1, 3, "d"))))
	case 4:
		// 2^k +- 1 inside the range
		k := g.intRange(1, t.Bits-1, "k")
		v = new(big.Int).Lsh(big.NewInt(1), uint(k))
		v.Add(v, big.NewInt(int64(g.intRange(-1, 1, "d"))))
		if t.Signed && g.chance(2, "neg") {
			v.Neg(v)
		}
	default:
		v = big.NewInt(int64(g.intRange(-9, 40, "small")))
	}
	if v.Cmp(lo) < 0 {
		v = new(big.Int).Set(lo)
	}
	if v.Cmp(hi) > 0 {
		v = new(big.Int).Set(hi)
	}
	return &Lit{T: t, I: v}
}

func (g *G) posLit(t *Type, maxv int64) *Lit {
	_, hi := t.Range()
	m := big.NewInt(maxv)
	if hi.Cmp(m) < 0 {
		m = hi
	}
	v := int64(g.intRange(1, int(m.Int64()), "pos"))
	return &Lit{T: t, I: big.NewInt(v)}
}

// ---------------------------------------------------------------- scopes

func (g *G) mark() int     { return len(g.vars) }
func (g *G) release(m int) { g.vars = g.vars[:m] }
func (g *G) declare(name string, t *Type, mut bool) {
	g.vars = append(g.vars, gvar{name, t, mut})
}

func (g *G) varsOf(pred func(v gvar) bool) []gvar {
	var out []gvar
	for _, v := range g.vars {
		if pred(v) {
			out = append(out, v)
		}
	}
	return out
}

// ---------------------------------------------------------------- expressions

func isConst(e Expr) bool {
	switch x := e.(type) {
	case *Lit:
		return true
	case *Bin:
		return isConst(x.L) && isConst(x.R)
	case *Un:
		return isConst(x.X)
	case *Paren:
		return isConst(x.X)
	case *Cast:
		return isConst(x.X)
	}
	return false
}

// intAtoms returns non-constant integer expressions of exactly type t that are available in scope.
func (g *G) intAtoms(t *Type) []Expr {
	var out []Expr
	for _, v := range g.vars {
		switch {
		case v.t.Equal(t):
			out = append(out, &Var{T: t, Name: v.name})
		case v.t.K == KStruct:
			for _, f := range v.t.Fields {
				if f.T.Equal(t) {
					out = append(out, &FieldX{T: t, X: &Var{T: v.t, Name: v.name}, Name: f.Name})
				} else if f.T.K == KStruct {
					for _, f2 := range f.T.Fields {
						if f2.T.Equal(t) {
							out = append(out, &FieldX{T: t, X: &FieldX{T: f.T, X: &Var{T: v.t, Name: v.name}, Name: f.Name}, Name: f2.Name})
						}
					}
				}
			}
		case v.t.K == KFixed && v.t.Elem.Equal(t):
			out = append(out, &Index{T: t, X: &Var{T: v.t, Name: v.name}, I: &Lit{T: IntT(32, true), I: big.NewInt(int64(g.intRange(-v.t.Len, v.t.Len-1, "fidx")))}})
		}
	}
	return out
}

func (g *G) genInt(t *Type, depth int) Expr {
	atoms := g.intAtoms(t)
	if depth <= 0 {
		if len(atoms) > 0 && !g.chance(3, "leaflit") {
			return atoms[g.intRange(0, len(atoms)-1, "atom")]
		}
		return g.intLit(t)
	}
	switch g.intRange(0, 11, "ikind") {
	case 0, 1, 2, 3: // arithmetic
		op := rapid.SampledFrom([]string{"+", "-", "*", "+", "-", "*", "/", "%"}).Draw(g.t, "op")
		l := g.genInt(t, depth-1)
		var r Expr
		if op == "/" || op == "%" {
			r = g.posLit(t, 9)
		} else {
			r = g.genInt(t, depth-1)
		}
		if isConst(l) && isConst(r) {
			// a constant-only expression is folded (and range-checked) at compile time: keep one side dynamic
			if len(atoms) == 0 {
				return l
			}
			l = atoms[g.intRange(0, len(atoms)-1, "atom")]
		}
		return &Bin{T: t, Op: op, L: l, R: r}
	case 4: // unary minus
		if t.Signed && g.use("unary_minus") {
			x := g.genInt(t, depth-1)
			if !isConst(x) {
				return &Un{T: t, Op: "-", X: x}
			}
		}
	case 5: // widening cast from a narrower type
		var cands []*Type
		for _, s := range g.ints {
			if s.Bits < t.Bits && (s.Signed == t.Signed || (!s.Signed && t.Signed)) && s.Bits <= 64 && t.Bits <= 64 {
				cands = append(cands, s)
			}
		}
		if len(cands) > 0 && g.use("cast.widen") {
			s := cands[g.intRange(0, len(cands)-1, "castsrc")]
			x := g.genInt(s, depth-1)
			if !isConst(x) {
				return &Cast{T: t, X: x}
			}
		}
	case 6: // call of a helper returning t
		var cands []*Func
		for _, h := range g.helpers {
			if h.Ret.Equal(t) {
				cands = append(cands, h)
			}
		}
		if len(cands) > 0 && g.depth < 3 {
			h := cands[g.intRange(0, len(cands)-1, "helper")]
			g.depth++
			c := &Call{T: t, Fn: h.Name}
			for _, p := range h.Params {
				c.Args = append(c.Args, g.genValue(p.T, depth-1))
			}
			g.depth--
			return c
		}
	case 7: // method call on a struct variable
		if g.cfg.Methods {
			if e := g.methodCallReturning(t, depth); e != nil {
				return e
			}
		}
	case 8: // len of an array / string
		if t.Bits == 32 && t.Signed {
			arrs := g.varsOf(func(v gvar) bool { return v.t.K == KDyn || v.t.K == KFixed || v.t.K == KStr })
			if len(arrs) > 0 && g.use("len") {
				v := arrs[g.intRange(0, len(arrs)-1, "lenof")]
				return &LenX{T: t, X: &Var{T: v.t, Name: v.name}}
			}
		}
	case 9: // element of a dynamic array at a valid (by construction) index is produced by statements, not here
	}
	if len(atoms) > 0 {
		return atoms[g.intRange(0, len(atoms)-1, "atom")]
	}
	return g.intLit(t)
}

func (g *G) methodCallReturning(t *Type, depth int) Expr {
	type cand struct {
		v gvar
		m *Func
	}
	var cs []cand
	for _, v := range g.vars {
		if v.t.K != KStruct {
			continue
		}
		for _, f := range g.p.Funcs {
			if f.Recv != nil && recvBase(f.Recv.T).Name == v.t.Name && f.Ret != nil && f.Ret.Equal(t) && len(f.Params) == 0 {
				if f.Recv.T.K == KRef && f.Recv.T.Mut {
					continue
				}
				cs = append(cs, cand{v, f})
			}
		}
	}
	if len(cs) == 0 {
		return nil
	}
	c := cs[g.intRange(0, len(cs)-1, "mcall")]
	g.use("method_call")
	return &MethodCall{T: t, Recv: &Var{T: c.v.t, Name: c.v.name}, Name: c.m.Name}
}

func (g *G) genBool(depth int) Expr {
	bvars := g.varsOf(func(v gvar) bool { return v.t.K == KBool })
	if depth <= 0 {
		if len(bvars) > 0 && g.chance(2, "bvar") {
			v := bvars[g.intRange(0, len(bvars)-1, "bv")]
			return &Var{T: TBool, Name: v.name}
		}
		return g.genCmp(0)
	}
	switch g.intRange(0, 6, "bkind") {
	case 0, 1, 2:
		return g.genCmp(depth - 1)
	case 3:
		return &Bin{T: TBool, Op: rapid.SampledFrom([]string{"&&", "||"}).Draw(g.t, "lop"), L: g.genBool(depth - 1), R: g.genBool(depth - 1)}
	case 4:
		return &Un{T: TBool, Op: "!", X: g.genBool(depth - 1)}
	case 5:
		if len(g.enums) > 0 {
			evars := g.varsOf(func(v gvar) bool { return v.t.K == KEnum })
			if len(evars) > 0 && g.use("enum.compare") {
				v := evars[g.intRange(0, len(evars)-1, "ev")]
				return &Bin{T: TBool, Op: rapid.SampledFrom([]string{"==", "!="}).Draw(g.t, "eop"), L: &Var{T: v.t, Name: v.name}, R: &EnumVal{T: v.t, V: g.intRange(0, len(v.t.Variants)-1, "variant")}}
			}
		}
	case 6:
		svars := g.varsOf(func(v gvar) bool { return v.t.K == KStr })
		if len(svars) > 0 && g.use("str.compare") {
			v := svars[g.intRange(0, len(svars)-1, "sv")]
			return &Bin{T: TBool, Op: rapid.SampledFrom([]string{"==", "!="}).Draw(g.t, "sop"), L: &Var{T: TStr, Name: v.name}, R: g.strLit()}
		}
	}
	return g.genCmp(depth - 1)
}

func (g *G) genCmp(depth int) Expr {
	hasInt := false
	for _, v := range g.vars {
		if v.t.K == KInt || v.t.K == KStruct || v.t.K == KFixed {
			hasInt = true
		}
	}
	if !hasInt {
		// nothing dynamic to compare: a comparison of two literals has no type context
		return &Lit{T: TBool, B: g.chance(2, "blit")}
	}
	t := g.pickInt("cmptype")
	// prefer a type that has a dynamic atom in scope (a comparison of two constants is folded)
	if len(g.intAtoms(t)) == 0 {
		for _, v := range g.vars {
			if v.t.K == KInt {
				t = v.t
				break
			}
		}
	}
	l := g.genInt(t, depth)
	r := g.genInt(t, depth)
	if isConst(l) && isConst(r) {
		atoms := g.intAtoms(t)
		if len(atoms) > 0 {
			l = atoms[g.intRange(0, len(atoms)-1, "atom")]
		}
	}
	return &Bin{T: TBool, Op: rapid.SampledFrom([]string{"==", "!=", "<", "<=", ">", ">="}).Draw(g.t, "cmp"), L: l, R: r}
}

var strPool = []string{"a", "hello", "", "x y", "Zz9", "ferret", "0", "long string value"}

func (g *G) strLit() *Lit { return &Lit{T: TStr, S: rapid.SampledFrom(strPool).Draw(g.t, "str")} }

func (g *G) genValue(t *Type, depth int) Expr {
	switch t.K {
	case KInt:
		return g.genInt(t, depth)
	case KBool:
		return g.genBool(depth)
	case KStr:
		svars := g.varsOf(func(v gvar) bool { return v.t.K == KStr })
		if len(svars) > 0 && g.chance(2, "svar") {
			v := svars[g.intRange(0, len(svars)-1, "sv")]
			return &Var{T: TStr, Name: v.name}
		}
		return g.strLit()
	case KEnum:
		evars := g.varsOf(func(v gvar) bool { return v.t.Equal(t) })
		if len(evars) > 0 && g.chance(2, "evar") {
			v := evars[g.intRange(0, len(evars)-1, "ev")]
			return &Var{T: t, Name: v.name}
		}
		return &EnumVal{T: t, V: g.intRange(0, len(t.Variants)-1, "variant")}
	case KStruct:
		svars := g.varsOf(func(v gvar) bool { return v.t.Equal(t) })
		if len(svars) > 0 && g.chance(2, "stvar") {
			v := svars[g.intRange(0, len(svars)-1, "stv")]
			return &Var{T: t, Name: v.name}
		}
		sl := &StructLit{T: t}
		for _, f := range t.Fields {
			sl.Fields = append(sl.Fields, g.genValue(f.T, max(depth-1, 0)))
		}
		return sl
	case KFixed, KDyn:
		al := &ArrLit{T: t}
		n := t.Len
		if t.K == KDyn {
			n = g.intRange(1, 5, "dynlen")
		}
		for i := 0; i < n; i++ {
			al.Elems = append(al.Elems, g.genValue(t.Elem, 0))
		}
		return al
	}
	panic("genValue: unsupported type " + t.String())
}

// ---------------------------------------------------------------- helper functions

func (g *G) genHelpers() {
	// pure integer helpers
	nh := g.intRange(1, 3, "nhelpers")
	for i := 0; i < nh; i++ {
		f := &Func{Name: g.fresh("h"), Ret: g.pickInt("hret")}
		np := g.intRange(1, 3, "nparams")
		m := g.mark()
		for j := 0; j < np; j++ {
			pt := g.pickInt("ptype")
			if j == 0 {
				pt = f.Ret
			}
			if g.chance(5, "boolparam") {
				pt = TBool
			}
			p := Param{Name: g.fresh("a"), T: pt}
			f.Params = append(f.Params, p)
			g.declare(p.Name, pt, true)
		}
		if g.chance(2, "hlet") {
			n := g.fresh("t")
			f.Body = append(f.Body, &Let{Name: n, T: f.Ret, Init: g.genInt(f.Ret, 2)})
			g.declare(n, f.Ret, true)
		}
		if g.chance(2, "hif") {
			f.Body = append(f.Body, &If{Cond: g.genBool(1), Then: []Stmt{&Return{X: g.genInt(f.Ret, 2)}}})
		}
		f.Body = append(f.Body, &Return{X: g.genInt(f.Ret, 2)})
		g.release(m)
		g.p.Funcs = append(g.p.Funcs, f)
		g.helpers = append(g.helpers, f)
	}
	if g.cfg.Recursion && g.use("recursion") {
		t := g.pickInt("rectype")
		i32 := IntT(32, true)
		f := &Func{Name: g.fresh("rec"), Ret: t, Params: []Param{{Name: "n", T: i32}, {Name: "acc", T: t}}}
		m := g.mark()
		g.declare("acc", t, false)
		step := g.genInt(t, 2)
		g.release(m)
		f.Body = []Stmt{
			&If{Cond: &Bin{T: TBool, Op: "<=", L: &Var{T: i32, Name: "n"}, R: &Lit{T: i32, I: big.NewInt(0)}}, Then: []Stmt{&Return{X: &Var{T: t, Name: "acc"}}}},
			&Return{X: &Call{T: t, Fn: f.Name, Args: []Expr{&Bin{T: i32, Op: "-", L: &Var{T: i32, Name: "n"}, R: &Lit{T: i32, I: big.NewInt(1)}}, step}}},
		}
		g.p.Funcs = append(g.p.Funcs, f)
		// callable as helper with a small literal depth: wrap
		w := &Func{Name: g.fresh("h"), Ret: t, Params: []Param{{Name: g.fresh("a"), T: t}}}
		w.Body = []Stmt{&Return{X: &Call{T: t, Fn: f.Name, Args: []Expr{&Lit{T: i32, I: big.NewInt(int64(g.intRange(0, 6, "recdepth")))}, &Var{T: t, Name: w.Params[0].Name}}}}}
		g.p.Funcs = append(g.p.Funcs, w)
		g.helpers = append(g.helpers, w)
	}
	for _, st := range g.structs {
		if !g.cfg.Methods || !g.use("methods") {
			break
		}
		// value receiver: combines int fields of the first int field's type
		ft := st.Fields[0].T
		m := g.mark()
		g.declare("s", st, false)
		f := &Func{Name: g.fresh("mv"), Recv: &Param{Name: "s", T: st}, Ret: ft, Body: []Stmt{&Return{X: g.genInt(ft, 2)}}}
		g.p.Funcs = append(g.p.Funcs, f)
		fr := &Func{Name: g.fresh("mr"), Recv: &Param{Name: "s", T: &Type{K: KRef, Elem: st}}, Ret: ft,
			Body: []Stmt{&Return{X: &FieldX{T: ft, X: &Var{T: st, Name: "s"}, Name: st.Fields[0].Name}}}}
		g.p.Funcs = append(g.p.Funcs, fr)
		g.release(m)
		// mutable receiver: s.F0 = s.F0 + d
		fw := &Func{Name: g.fresh("mw"), Recv: &Param{Name: "s", T: &Type{K: KRef, Elem: st, Mut: true}}, Params: []Param{{Name: "d", T: ft}}}
		fld := &FieldX{T: ft, X: &Var{T: st, Name: "s"}, Name: st.Fields[0].Name}
		fw.Body = []Stmt{&Assign{LHS: fld, Op: "=", RHS: &Bin{T: ft, Op: "+", L: fld, R: &Var{T: ft, Name: "d"}}}}
		g.p.Funcs = append(g.p.Funcs, fw)
		// by-value update: returns a modified copy
		fu := &Func{Name: g.fresh("upd"), Ret: st, Params: []Param{{Name: "s", T: st}, {Name: "d", T: ft}}}
		fu.Body = []Stmt{&Assign{LHS: fld, Op: "=", RHS: &Bin{T: ft, Op: "*", L: fld, R: &Var{T: ft, Name: "d"}}}, &Return{X: &Var{T: st, Name: "s"}}}
		g.p.Funcs = append(g.p.Funcs, fu)
		g.updFns = append(g.updFns, fu)
	}
	if g.cfg.Refs && g.use("refs.param") {
		for i := 0; i < 2; i++ {
			t := g.pickInt("reftype")
			if _, ok := g.incFns[t.String()]; ok {
				continue
			}
			rt := &Type{K: KRef, Elem: t, Mut: true}
			f := &Func{Name: g.fresh("inc"), Params: []Param{{Name: "r", T: rt}, {Name: "d", T: t}}}
			rd := func() Expr { return &Deref{T: t, X: &Var{T: rt, Name: "r"}} }
			f.Body = []Stmt{
				&Let{Name: "c", T: t, Init: rd()},
				&Assign{LHS: rd(), Op: "=", RHS: &Bin{T: t, Op: "+", L: &Var{T: t, Name: "c"}, R: &Var{T: t, Name: "d"}}},
			}
			if g.use("refs.operand_of_operator") {
				// the reference itself as an operand: with a typed value, a literal, itself, in a comparison
				switch g.intRange(0, 3, "refarith") {
				case 0:
					f.Body = []Stmt{&Assign{LHS: rd(), Op: "=", RHS: &Bin{T: t, Op: "+", L: rd(), R: &Var{T: t, Name: "d"}}}}
				case 1:
					f.Body = []Stmt{
						&Assign{LHS: rd(), Op: "=", RHS: &Bin{T: t, Op: "+", L: &Var{T: t, Name: "d"}, R: rd()}},
						&Assign{LHS: rd(), Op: "=", RHS: &Bin{T: t, Op: "-", L: &Bin{T: t, Op: "+", L: rd(), R: g.posLit(t, 9)}, R: g.posLit(t, 9)}},
					}
				case 2:
					f.Body = []Stmt{
						&If{Cond: &Bin{T: TBool, Op: ">", L: rd(), R: g.posLit(t, 9)}, Then: []Stmt{&Assign{LHS: rd(), Op: "=", RHS: &Bin{T: t, Op: "-", L: rd(), R: g.posLit(t, 9)}}}},
						&Assign{LHS: rd(), Op: "+=", RHS: &Var{T: t, Name: "d"}},
					}
				case 3:
					f.Body = []Stmt{
						&Let{Name: "c", T: t, Init: &Bin{T: t, Op: "+", L: rd(), R: rd()}},
						&Assign{LHS: rd(), Op: "=", RHS: &Bin{T: t, Op: "-", L: &Var{T: t, Name: "c"}, R: &Bin{T: t, Op: "-", L: rd(), R: &Var{T: t, Name: "d"}}}},
					}
				}
			}
			g.p.Funcs = append(g.p.Funcs, f)
			g.incFns[t.String()] = f
		}
	}
	if g.cfg.Results && g.use("results") {
		t := g.pickInt("restype")
		f := &Func{Name: g.fresh("try"), Ret: t, ErrT: TStr, Params: []Param{{Name: "a", T: t}, {Name: "b", T: t}}}
		f.Body = []Stmt{
			&If{Cond: &Bin{T: TBool, Op: rapid.SampledFrom([]string{">", "<", "=="}).Draw(g.t, "trycmp"), L: &Var{T: t, Name: "a"}, R: &Var{T: t, Name: "b"}},
				Then: []Stmt{&ReturnErr{X: g.strLit()}}},
			&Return{X: &Bin{T: t, Op: "+", L: &Var{T: t, Name: "a"}, R: &Var{T: t, Name: "b"}}},
		}
		g.p.Funcs = append(g.p.Funcs, f)
		g.tryFns = append(g.tryFns, f)
	}
	for _, e := range g.enums {
		t := g.pickInt("picktype")
		f := &Func{Name: g.fresh("pick"), Ret: t, Params: []Param{{Name: "e", T: e}}}
		mt := &Match{X: &Var{T: e, Name: "e"}, HasDef: true, Default: []Stmt{&Return{X: g.intLit(t)}}}
		for v := 0; v < len(e.Variants)-1; v++ {
			mt.Arms = append(mt.Arms, MatchArm{Pat: &EnumVal{T: e, V: v}, Body: []Stmt{&Return{X: g.intLit(t)}}})
		}
		// the function ends with a return after the match (a match whose arms all return is a C05 matter)
		f.Body = []Stmt{mt}
		g.p.Funcs = append(g.p.Funcs, f)
		g.pickFns = append(g.pickFns, f)
		g.use("match.enum")
	}
}

// ---------------------------------------------------------------- statements

func (g *G) printable() []Expr {
	var out []Expr
	for _, v := range g.vars {
		switch v.t.K {
		case KInt, KBool, KStr:
			out = append(out, &Var{T: v.t, Name: v.name})
		case KStruct:
			for _, f := range v.t.Fields {
				if f.T.K == KInt || f.T.K == KBool {
					out = append(out, &FieldX{T: f.T, X: &Var{T: v.t, Name: v.name}, Name: f.Name})
				} else if f.T.K == KStruct {
					for _, f2 := range f.T.Fields {
						if f2.T.K == KInt || f2.T.K == KBool {
							out = append(out, &FieldX{T: f2.T, X: &FieldX{T: f.T, X: &Var{T: v.t, Name: v.name}, Name: f.Name}, Name: f2.Name})
						}
					}
				}
			}
		case KFixed:
			if v.t.Elem.K == KInt {
				for i := 0; i < v.t.Len; i++ {
					out = append(out, &Index{T: v.t.Elem, X: &Var{T: v.t, Name: v.name}, I: &Lit{T: IntT(32, true), I: big.NewInt(int64(i))}})
				}
			}
		case KDyn:
			out = append(out, &LenX{T: IntT(32, true), X: &Var{T: v.t, Name: v.name}})
		}
	}
	return out
}

// printAll prints every observable value of the scope, a few per line.
func (g *G) printAll() []Stmt {
	ps := g.printable()
	var out []Stmt
	for i := 0; i < len(ps); i += 4 {
		out = append(out, &Print{Args: ps[i:min(i+4, len(ps))]})
	}
	return out
}

func (g *G) genScenario(i int) *Func {
	f := &Func{Name: fmt.Sprintf("s%d", i)}
	m := g.mark()
	// a few integer variables first, so that expressions have dynamic atoms
	for k := 0; k < 3; k++ {
		t := g.pickInt("vtype")
		n := g.fresh("v")
		f.Body = append(f.Body, &Let{Name: n, T: t, Init: g.intLit(t)})
		g.declare(n, t, true)
	}
	f.Body = append(f.Body, g.genStmts(g.intRange(3, 8, "nstmts"), 2)...)
	f.Body = append(f.Body, g.printAll()...)
	g.release(m)
	return f
}

func (g *G) genStmts(n, depth int) []Stmt {
	var out []Stmt
	g.nest++
	for i := 0; i < n; i++ {
		out = append(out, g.genStmt(depth)...)
	}
	g.nest--
	return out
}

// assignTo generates `v = expr` avoiding the plain self-assignment `v = v` unless that feature is allowed.
func (g *G) assignTo(v gvar) Stmt {
	rhs := g.genInt(v.t, 1)
	if rv, ok := rhs.(*Var); ok && rv.Name == v.name && !g.use("stmt.self_assign") {
		rhs = &Bin{T: v.t, Op: "+", L: rhs, R: g.posLit(v.t, 9)}
	}
	return &Assign{LHS: &Var{T: v.t, Name: v.name}, Op: "=", RHS: rhs}
}

// selfLit builds a literal of v's type whose components read other components of v
// (fields of equal type rotated, array elements reversed).
func (g *G) selfLit(v gvar) Expr {
	self := &Var{T: v.t, Name: v.name}
	bump := func(e Expr, t *Type) Expr {
		switch t.K {
		case KInt:
			return &Bin{T: t, Op: "+", L: e, R: g.posLit(t, 9)}
		case KBool:
			return &Un{T: TBool, Op: "!", X: e}
		}
		return e
	}
	if v.t.K == KFixed {
		al := &ArrLit{T: v.t}
		n := v.t.Len
		for i := 0; i < n; i++ {
			e := Expr(&Index{T: v.t.Elem, X: self, I: &Lit{T: IntT(32, true), I: big.NewInt(int64(n - 1 - i))}})
			if n-1-i == i {
				e = bump(e, v.t.Elem)
			}
			al.Elems = append(al.Elems, e)
		}
		return al
	}
	sl := &StructLit{T: v.t}
	nf := len(v.t.Fields)
	for i, f := range v.t.Fields {
		src := i
		for d := 1; d < nf; d++ {
			if j := (i + d) % nf; v.t.Fields[j].T.Equal(f.T) {
				src = j
				break
			}
		}
		e := Expr(&FieldX{T: f.T, X: self, Name: v.t.Fields[src].Name})
		if src == i {
			e = bump(e, f.T)
		}
		sl.Fields = append(sl.Fields, e)
	}
	return sl
}

func (g *G) mutableIntVars() []gvar {
	return g.varsOf(func(v gvar) bool { return v.mut && v.t.K == KInt })
}

func (g *G) genStmt(depth int) []Stmt {
	kind := g.intRange(0, 20, "skind")
	switch kind {
	case 20: // a boundary value of a narrow type widened to every type that can hold it (the extension must follow the source's signedness)
		if g.use("cast.widen_boundary_value") {
			var srcs []*Type
			for _, s := range g.ints {
				if s.Bits <= 32 {
					srcs = append(srcs, s)
				}
			}
			if len(srcs) > 0 {
				s := srcs[g.intRange(0, len(srcs)-1, "bcsrc")]
				lo, hi := s.Range()
				v := []*big.Int{lo, hi, new(big.Int).Sub(hi, big.NewInt(int64(g.intRange(0, 9, "bcoff")))), big.NewInt(-1)}[g.intRange(0, 3, "bcval")]
				if v.Cmp(lo) < 0 {
					v = hi
				}
				n := g.fresh("bc")
				out := []Stmt{&Let{Name: n, T: s, Init: &Lit{T: s, I: v}}}
				g.declare(n, s, true)
				var args []Expr
				for _, t := range g.ints {
					if t.Bits > s.Bits && t.Bits <= 64 && (s.Signed == t.Signed || (!s.Signed && t.Signed)) {
						args = append(args, &Cast{T: t, X: &Var{T: s, Name: n}})
					}
				}
				if len(args) > 4 {
					args = args[:4]
				}
				if len(args) > 0 {
					return append(out, &Print{Args: args})
				}
				return out
			}
		}
	case 0, 1: // new int / bool variable
		if g.chance(4, "boolvar") {
			n := g.fresh("b")
			s := &Let{Name: n, T: TBool, Init: g.genBool(2)}
			g.declare(n, TBool, true)
			return []Stmt{s}
		}
		t := g.pickInt("vtype")
		n := g.fresh("v")
		cst := g.chance(5, "const") && g.use("const_local")
		init := g.genInt(t, 3)
		s := &Let{Name: n, T: t, Init: init, Const: cst}
		g.declare(n, t, !cst)
		return []Stmt{s}
	case 2, 3: // assignment
		mv := g.mutableIntVars()
		if len(mv) > 0 {
			v := mv[g.intRange(0, len(mv)-1, "asgvar")]
			op := rapid.SampledFrom([]string{"=", "=", "+=", "-=", "*="}).Draw(g.t, "asgop")
			rhs := g.genInt(v.t, 2)
			if rv, ok := rhs.(*Var); ok && rv.Name == v.name && op == "=" && !g.use("stmt.self_assign") {
				rhs = &Bin{T: v.t, Op: "+", L: rhs, R: g.posLit(v.t, 9)}
			}
			return []Stmt{&Assign{LHS: &Var{T: v.t, Name: v.name}, Op: op, RHS: rhs}}
		}
	case 4: // if / else if / else
		if depth > 0 {
			s := &If{Cond: g.genBool(2)}
			m := g.mark()
			s.Then = g.genStmts(g.intRange(1, 3, "nthen"), depth-1)
			g.release(m)
			switch g.intRange(0, 2, "else") {
			case 1:
				m := g.mark()
				s.Else = g.genStmts(g.intRange(1, 2, "nelse"), depth-1)
				g.release(m)
			case 2:
				m := g.mark()
				inner := &If{Cond: g.genBool(1), Then: g.genStmts(1, depth-1)}
				g.release(m)
				m = g.mark()
				inner.Else = g.genStmts(1, depth-1)
				g.release(m)
				s.Else = []Stmt{inner}
			}
			return []Stmt{s}
		}
	case 5: // while with a fuel counter
		if depth > 0 && g.use("while") {
			i32 := IntT(32, true)
			fuel := g.fresh("fuel")
			let := &Let{Name: fuel, T: i32, Init: &Lit{T: i32, I: big.NewInt(int64(g.intRange(0, 5, "fuel")))}}
			g.declare(fuel, i32, false) // not assignable by generated statements
			fv := &Var{T: i32, Name: fuel}
			cond := Expr(&Bin{T: TBool, Op: ">", L: fv, R: &Lit{T: i32, I: big.NewInt(0)}})
			m := g.mark()
			body := []Stmt{&Assign{LHS: fv, Op: "=", RHS: &Bin{T: i32, Op: "-", L: fv, R: &Lit{T: i32, I: big.NewInt(1)}}}}
			wasLoop := g.inLoop
			g.inLoop = true
			body = append(body, g.genStmts(g.intRange(1, 3, "nbody"), depth-1)...)
			if g.chance(3, "brk") && g.use("break_continue") {
				body = append(body, &If{Cond: g.genBool(1), Then: []Stmt{rapid.SampledFrom([]Stmt{&Break{}, &Continue{}}).Draw(g.t, "bc")}})
				body = append(body, g.genStmts(1, depth-1)...)
			}
			g.inLoop = wasLoop
			g.release(m)
			return []Stmt{let, &While{Cond: cond, Body: body}}
		}
	case 6: // for over a range
		if depth > 0 && g.use("for_range") {
			t := rapid.SampledFrom([]*Type{IntT(32, true), IntT(32, true), IntT(64, true), IntT(32, false), IntT(64, false)}).Draw(g.t, "rtype")
			lo := int64(g.intRange(0, 3, "lo"))
			hi := lo + int64(g.intRange(0, 4, "span"))
			v := g.fresh("i")
			s := &ForRange{Var: v, T: t, Lo: &Lit{T: t, I: big.NewInt(lo)}, Hi: &Lit{T: t, I: big.NewInt(hi)}, Inclusive: g.chance(2, "incl")}
			// typed bounds: one bound is a variable when one of that type exists
			if atoms := g.varsOf(func(x gvar) bool { return x.t.Equal(t) }); len(atoms) == 0 {
				// `for i in 0..3` with literal bounds iterates over i32
				s.T = IntT(32, true)
				s.Lo.(*Lit).T, s.Hi.(*Lit).T = s.T, s.T
			} else {
				// bind the upper bound to a fresh immutable local so that the bound has the loop type
				bn := g.fresh("hi")
				pre := &Let{Name: bn, T: t, Init: &Lit{T: t, I: big.NewInt(hi)}, Const: false}
				g.declare(bn, t, false)
				s.Hi = &Var{T: t, Name: bn}
				m := g.mark()
				g.declare(v, s.T, false)
				s.Body = g.genStmts(g.intRange(1, 2, "nbody"), depth-1)
				g.release(m)
				return []Stmt{pre, s}
			}
			m := g.mark()
			g.declare(v, s.T, false)
			s.Body = g.genStmts(g.intRange(1, 2, "nbody"), depth-1)
			g.release(m)
			return []Stmt{s}
		}
	case 7: // struct variable, copy, field assignment
		if sv := g.varsOf(func(v gvar) bool { return v.mut && (v.t.K == KStruct || v.t.K == KFixed) }); len(sv) > 0 && g.chance(3, "selflit") && g.use("stmt.assign_literal_reading_target") {
			// whole-value assignment of a literal that reads the assigned variable: the right-hand side is evaluated first
			v := sv[g.intRange(0, len(sv)-1, "selflitvar")]
			return []Stmt{&Assign{LHS: &Var{T: v.t, Name: v.name}, Op: "=", RHS: g.selfLit(v)}}
		}
		if len(g.structs) > 0 {
			st := g.structs[g.intRange(0, len(g.structs)-1, "st")]
			n := g.fresh("p")
			s := &Let{Name: n, T: st, Init: g.genValue(st, 1)}
			if _, isVar := s.Init.(*Var); isVar {
				g.use("struct.copy")
			}
			g.declare(n, st, true)
			out := []Stmt{s}
			// mutate one int field of the new variable (must not affect the source of a copy)
			for _, f := range st.Fields {
				if f.T.K == KInt && g.chance(2, "fasg") {
					out = append(out, &Assign{LHS: &FieldX{T: f.T, X: &Var{T: st, Name: n}, Name: f.Name}, Op: rapid.SampledFrom([]string{"=", "+="}).Draw(g.t, "fop"), RHS: g.genInt(f.T, 1)})
					g.use("struct.field_assign")
					break
				}
			}
			return out
		}
	case 8: // method calls: mutating receiver, by-value update
		pv := g.varsOf(func(v gvar) bool { return v.t.K == KStruct && v.mut })
		if len(pv) > 0 && g.cfg.Methods {
			v := pv[g.intRange(0, len(pv)-1, "pv")]
			for _, f := range g.p.Funcs {
				if f.Recv != nil && f.Recv.T.K == KRef && f.Recv.T.Mut && f.Recv.T.Elem.Name == v.t.Name && g.chance(2, "mw") {
					g.use("method.mut_receiver")
					return []Stmt{&ExprStmt{X: &MethodCall{T: TVoid, Recv: &Var{T: v.t, Name: v.name}, Name: f.Name, Args: []Expr{g.genInt(f.Params[0].T, 1)}}}}
				}
			}
			for _, f := range g.updFns {
				if f.Ret.Equal(v.t) {
					g.use("struct.byval_param")
					n := g.fresh("p")
					s := &Let{Name: n, T: v.t, Init: &Call{T: v.t, Fn: f.Name, Args: []Expr{&Var{T: v.t, Name: v.name}, g.genInt(f.Params[1].T, 1)}}}
					g.declare(n, v.t, true)
					return []Stmt{s}
				}
			}
		}
	case 9: // enum variable + match statement
		if len(g.enums) > 0 && depth > 0 {
			e := g.enums[0]
			n := g.fresh("e")
			let := &Let{Name: n, T: e, Init: &EnumVal{T: e, V: g.intRange(0, len(e.Variants)-1, "variant")}}
			g.declare(n, e, true)
			out := []Stmt{let}
			if len(g.pickFns) > 0 {
				pf := g.pickFns[0]
				r := g.fresh("v")
				out = append(out, &Let{Name: r, T: pf.Ret, Init: &Call{T: pf.Ret, Fn: pf.Name, Args: []Expr{&Var{T: e, Name: n}}}})
				g.declare(r, pf.Ret, true)
			}
			mv := g.mutableIntVars()
			if len(mv) > 0 {
				tv := mv[g.intRange(0, len(mv)-1, "mtarget")]
				mt := &Match{X: &Var{T: e, Name: n}, HasDef: g.chance(2, "hasdef")}
				for v := 0; v < len(e.Variants); v++ {
					if mt.HasDef && v == len(e.Variants)-1 {
						break
					}
					mt.Arms = append(mt.Arms, MatchArm{Pat: &EnumVal{T: e, V: v}, Body: []Stmt{g.assignTo(tv)}})
				}
				if mt.HasDef {
					mt.Default = []Stmt{g.assignTo(tv)}
				}
				out = append(out, mt)
			}
			return out
		}
	case 10: // match on an integer
		mv := g.mutableIntVars()
		if len(mv) > 0 && depth > 0 && g.use("match.int") {
			v := mv[g.intRange(0, len(mv)-1, "mvar")]
			tv := mv[g.intRange(0, len(mv)-1, "mtarget")]
			if v.t.Bits > 64 {
				break
			}
			mt := &Match{X: &Var{T: v.t, Name: v.name}, HasDef: true}
			seen := map[string]bool{}
			for k := 0; k < g.intRange(1, 3, "narms"); k++ {
				l := g.intLit(v.t)
				if seen[l.I.String()] {
					continue
				}
				seen[l.I.String()] = true
				mt.Arms = append(mt.Arms, MatchArm{Pat: l, Body: []Stmt{g.assignTo(tv)}})
			}
			mt.Default = []Stmt{g.assignTo(tv)}
			return []Stmt{mt}
		}
	case 11: // fixed array: declare, copy, element assignment with constant index
		if g.cfg.Fixed && g.use("fixed_arrays") {
			et := g.pickInt("fet")
			at := &Type{K: KFixed, Elem: et, Len: g.intRange(1, 5, "flen")}
			n := g.fresh("fa")
			out := []Stmt{&Let{Name: n, T: at, Init: g.genValue(at, 0)}}
			g.declare(n, at, true)
			if g.chance(2, "fcopy") {
				c := g.fresh("fa")
				out = append(out, &Let{Name: c, T: at, Init: &Var{T: at, Name: n}})
				g.declare(c, at, true)
				g.use("fixed.copy")
				n = c
			}
			if g.chance(2, "fset") {
				idx := g.intRange(-at.Len, at.Len-1, "fidx")
				out = append(out, &Assign{LHS: &Index{T: et, X: &Var{T: at, Name: n}, I: &Lit{T: IntT(32, true), I: big.NewInt(int64(idx))}}, Op: "=", RHS: g.genInt(et, 1)})
				g.use("fixed.elem_assign")
			}
			return out
		}
	case 12: // dynamic array: literal, appends, for-in accumulation
		if g.cfg.Dyn && depth > 0 && g.use("dyn_arrays") {
			et := rapid.SampledFrom([]*Type{IntT(32, true), IntT(64, true), IntT(32, false), IntT(64, false)}).Draw(g.t, "det")
			at := &Type{K: KDyn, Elem: et}
			n := g.fresh("da")
			out := []Stmt{&Let{Name: n, T: at, Init: g.genValue(at, 0)}}
			g.declare(n, at, false)
			for k := 0; k < g.intRange(0, 3, "nappend"); k++ {
				// the appended value must not read the array that is mutably borrowed by append
				saved := g.vars
				g.vars = g.varsOf(func(x gvar) bool { return x.name != n })
				val := g.genInt(et, 1)
				g.vars = saved
				out = append(out, &Append{Arr: &Var{T: at, Name: n}, Val: val})
				g.use("dyn.append")
			}
			// element stores: several through the same array value (a parameter of a helper, the local itself)
			if alit, ok := out[0].(*Let).Init.(*ArrLit); ok && g.chance(2, "dynstores") && g.use("dyn.elem_stores") {
				dlen := len(alit.Elems) + len(out) - 1
				i32 := IntT(32, true)
				at0 := func(arr string, i int) Expr {
					return &Index{T: et, X: &Var{T: at, Name: arr}, I: &Lit{T: i32, I: big.NewInt(int64(i))}}
				}
				if g.chance(2, "dynparam") {
					fname := "dst_" + et.String()
					if g.dstFns == nil {
						g.dstFns = map[string]bool{}
					}
					if !g.dstFns[fname] {
						g.dstFns[fname] = true
						g.p.Funcs = append(g.p.Funcs, &Func{Name: fname, Params: []Param{{Name: "a", T: at}, {Name: "v", T: et}}, Body: []Stmt{
							&Assign{LHS: at0("a", 0), Op: "=", RHS: &Var{T: et, Name: "v"}},
							&Assign{LHS: at0("a", 0), Op: "=", RHS: &Bin{T: et, Op: "+", L: at0("a", 0), R: &Var{T: et, Name: "v"}}},
							&Assign{LHS: at0("a", 0), Op: "*=", RHS: &Lit{T: et, I: big.NewInt(3)}},
						}})
					}
					saved := g.vars
					g.vars = g.varsOf(func(x gvar) bool { return x.name != n })
					val := g.genInt(et, 1)
					g.vars = saved
					out = append(out, &ExprStmt{X: &Call{T: TVoid, Fn: fname, Args: []Expr{&Var{T: at, Name: n}, val}}})
					g.use("dyn.elem_stores_through_param")
				}
				for k := g.intRange(1, 3, "ndynstore"); k > 0; k-- {
					i := g.intRange(0, dlen-1, "dynstoreidx")
					saved := g.vars
					g.vars = g.varsOf(func(x gvar) bool { return x.name != n })
					val := g.genInt(et, 1)
					g.vars = saved
					out = append(out, &Assign{LHS: at0(n, i), Op: rapid.SampledFrom([]string{"=", "+=", "="}).Draw(g.t, "dynstoreop"), RHS: val})
				}
			}
			acc := g.fresh("v")
			out = append(out, &Let{Name: acc, T: et, Init: &Lit{T: et, I: big.NewInt(0)}})
			g.declare(acc, et, true)
			x := g.fresh("x")
			loop := &ForIn{Val: x, Arr: &Var{T: at, Name: n}}
			if g.chance(2, "withidx") {
				loop.Idx = g.fresh("i")
				g.use("for_in.index")
			}
			loop.Body = []Stmt{&Assign{LHS: &Var{T: et, Name: acc}, Op: "=", RHS: &Bin{T: et, Op: rapid.SampledFrom([]string{"+", "-", "*"}).Draw(g.t, "accop"), L: &Var{T: et, Name: acc}, R: &Var{T: et, Name: x}}}}
			out = append(out, loop)
			return out
		}
	case 13: // string variable
		if g.cfg.Str && g.use("strings") {
			n := g.fresh("s")
			g.declare(n, TStr, true)
			return []Stmt{&Let{Name: n, T: TStr, Init: g.strLit()}}
		}
	case 14: // reference parameter: inc(&'v, d)
		if g.cfg.Refs && len(g.incFns) > 0 {
			for _, v := range g.mutableIntVars() {
				if g.captured[v.name] && !g.use("refs.of_captured_var") {
					continue
				}
				if f, ok := g.incFns[v.t.String()]; ok {
					g.use("refs.pass_mut")
					// the other argument must not touch the mutably borrowed variable
					saved := g.vars
					g.vars = g.varsOf(func(x gvar) bool { return x.name != v.name && x.t.K == KInt })
					d := g.genInt(v.t, 1)
					g.vars = saved
					return []Stmt{&ExprStmt{X: &Call{T: TVoid, Fn: f.Name, Args: []Expr{&Borrow{T: &Type{K: KRef, Elem: v.t, Mut: true}, X: &Var{T: v.t, Name: v.name}}, d}}}}
				}
			}
		}
	case 15: // local mutable reference in its own block: write through, then read the referent afterwards
		if g.cfg.Refs && depth > 0 {
			mv := g.mutableIntVars()
			if len(mv) > 0 && g.use("refs.local") {
				v := mv[g.intRange(0, len(mv)-1, "refvar")]
				if g.captured[v.name] && !g.use("refs.of_captured_var") {
					break
				}
				rt := &Type{K: KRef, Elem: v.t, Mut: true}
				r := g.fresh("r")
				m := g.mark()
				// inside the block only the reference is used (the referent is borrowed)
				saved := g.vars
				g.vars = nil
				rhs := g.intLit(v.t)
				g.vars = saved
				blk := &Block{Body: []Stmt{
					&Let{Name: r, T: rt, Init: &Borrow{T: rt, X: &Var{T: v.t, Name: v.name}}},
					&Assign{LHS: &Deref{T: v.t, X: &Var{T: rt, Name: r}}, Op: rapid.SampledFrom([]string{"=", "+="}).Draw(g.t, "refop"), RHS: rhs},
				}}
				g.release(m)
				return []Stmt{blk}
			}
		}
	case 16: // closure capturing a variable by reference
		if g.cfg.Closures && depth > 0 {
			mv := g.mutableIntVars()
			// nest == 1: top level of the scenario. A closure created in a nested block captures a variable
			// that is also used on paths not passing through the creation point (known finding).
			if len(mv) > 0 && (g.nest <= 1 || g.use("closures.in_nested_block")) && g.use("closures") {
				v := mv[g.intRange(0, len(mv)-1, "capvar")]
				if v.t.Bits > 64 {
					break
				}
				fn := g.fresh("f")
				g.captured[v.name] = true
				ft := &Type{K: KFn, Params: []*Type{v.t}, Ret: v.t}
				lit := &FnLit{T: ft, Params: []string{"y"}, Body: []Stmt{&Return{X: &Bin{T: v.t, Op: rapid.SampledFrom([]string{"+", "-", "*"}).Draw(g.t, "cop"), L: &Var{T: v.t, Name: v.name}, R: &Var{T: v.t, Name: "y"}}}}}
				out := []Stmt{&Let{Name: fn, T: ft, Init: lit, Infer: true}}
				if g.chance(2, "mutate_captured") {
					out = append(out, &Assign{LHS: &Var{T: v.t, Name: v.name}, Op: "=", RHS: g.intLit(v.t)})
					g.use("closures.capture_then_mutate")
				}
				r := g.fresh("v")
				out = append(out, &Let{Name: r, T: v.t, Init: &Call{T: v.t, Fn: fn, Args: []Expr{g.genInt(v.t, 1)}}})
				g.declare(r, v.t, true)
				if g.chance(3, "compound_rhs_mutates") && g.use("stmt.compound_rhs_mutates_target") {
					// left-to-right evaluation: `v op= bump()` reads v before bump() writes it
					bump := g.fresh("bump")
					bt := &Type{K: KFn, Ret: v.t}
					blit := &FnLit{T: bt, Body: []Stmt{
						&Assign{LHS: &Var{T: v.t, Name: v.name}, Op: "=", RHS: &Bin{T: v.t, Op: "+", L: &Var{T: v.t, Name: v.name}, R: g.posLit(v.t, 9)}},
						&Return{X: g.posLit(v.t, 9)}}}
					out = append(out, &Let{Name: bump, T: bt, Init: blit, Infer: true},
						&Assign{LHS: &Var{T: v.t, Name: v.name}, Op: rapid.SampledFrom([]string{"+=", "-=", "*="}).Draw(g.t, "cmut_op"), RHS: &Call{T: v.t, Fn: bump}},
						&Print{Args: []Expr{&Var{T: v.t, Name: v.name}}})
				}
				return out
			}
		}
	case 17: // result with catch
		if len(g.tryFns) > 0 {
			f := g.tryFns[0]
			t := f.Ret
			n := g.fresh("v")
			call := &Call{T: t, Fn: f.Name, Args: []Expr{g.genInt(t, 1), g.genInt(t, 1)}}
			cc := &CatchCall{T: t, Call: call, Fallback: g.intLit(t)}
			if g.chance(2, "handler") && g.use("catch.handler") {
				cc.ErrVar = g.fresh("err")
				cc.Handler = []Stmt{&Print{Args: []Expr{&Var{T: TStr, Name: cc.ErrVar}}}}
			} else {
				g.use("catch.fallback")
			}
			g.declare(n, t, true)
			return []Stmt{&Let{Name: n, T: t, Init: cc, Infer: true}}
		}
	case 18: // print some values in the middle of the scenario
		ps := g.printable()
		if len(ps) > 0 {
			k := g.intRange(1, min(4, len(ps)), "nprint")
			var as []Expr
			for i := 0; i < k; i++ {
				as = append(as, ps[g.intRange(0, len(ps)-1, "pidx")])
			}
			return []Stmt{&Print{Args: as}}
		}
	case 19: // print an expression directly
		for _, v := range g.vars {
			if v.t.K == KInt && g.use("print.expr") {
				// an expression printed directly (no typed binding in between); it must contain a typed operand
				e := g.genInt(v.t, 2)
				if isConst(e) {
					e = &Bin{T: v.t, Op: "+", L: &Var{T: v.t, Name: v.name}, R: e}
				}
				return []Stmt{&Print{Args: []Expr{e, g.genBool(1)}}}
			}
		}
	}
	// fallback: a plain integer variable
	t := g.pickInt("vtype")
	n := g.fresh("v")
	s := &Let{Name: n, T: t, Init: g.genInt(t, 2)}
	g.declare(n, t, true)
	return []Stmt{s}
}
