package fer

// calledIn collects the names of functions (and "Type.method" keys) referenced by a body.
func calledIn(body []Stmt, out map[string]bool) {
	var ex func(e Expr)
	var st func(s Stmt)
	exs := func(es []Expr) {
		for _, e := range es {
			ex(e)
		}
	}
	sts := func(ss []Stmt) {
		for _, s := range ss {
			st(s)
		}
	}
	ex = func(e Expr) {
		switch x := e.(type) {
		case nil:
		case *Bin:
			ex(x.L)
			ex(x.R)
		case *Un:
			ex(x.X)
		case *Cast:
			ex(x.X)
		case *Call:
			out[x.Fn] = true
			exs(x.Args)
		case *MethodCall:
			out[recvBase(x.Recv.Type()).Name+"."+x.Name] = true
			ex(x.Recv)
			exs(x.Args)
		case *FieldX:
			ex(x.X)
		case *Index:
			ex(x.X)
			ex(x.I)
		case *StructLit:
			exs(x.Fields)
		case *ArrLit:
			exs(x.Elems)
		case *LenX:
			ex(x.X)
		case *Borrow:
			ex(x.X)
		case *Paren:
			ex(x.X)
		case *Deref:
			ex(x.X)
		case *CatchCall:
			ex(x.Call)
			sts(x.Handler)
			ex(x.Fallback)
		case *FnLit:
			sts(x.Body)
		}
	}
	st = func(s Stmt) {
		switch x := s.(type) {
		case *Let:
			ex(x.Init)
		case *Assign:
			ex(x.LHS)
			ex(x.RHS)
		case *IncDec:
			ex(x.LHS)
		case *If:
			ex(x.Cond)
			sts(x.Then)
			sts(x.Else)
		case *While:
			ex(x.Cond)
			sts(x.Body)
		case *ForRange:
			ex(x.Lo)
			ex(x.Hi)
			ex(x.Step)
			sts(x.Body)
		case *ForIn:
			ex(x.Arr)
			sts(x.Body)
		case *Match:
			ex(x.X)
			for _, a := range x.Arms {
				ex(a.Pat)
				sts(a.Body)
			}
			sts(x.Default)
		case *Return:
			ex(x.X)
		case *ReturnErr:
			ex(x.X)
		case *ExprStmt:
			ex(x.X)
		case *Print:
			exs(x.Args)
		case *Append:
			ex(x.Arr)
			ex(x.Val)
		case *Block:
			sts(x.Body)
		}
	}
	sts(body)
}

// Prune removes functions that are not reachable from main (keeps programs, and
// above all shrunk counter-examples, small).
func (p *Program) Prune() {
	byKey := map[string]*Func{}
	for _, f := range p.Funcs {
		k := f.Name
		if f.Recv != nil {
			k = recvBase(f.Recv.T).Name + "." + f.Name
		}
		byKey[k] = f
	}
	reach := map[string]bool{"main": true}
	work := []string{"main"}
	for len(work) > 0 {
		k := work[len(work)-1]
		work = work[:len(work)-1]
		f := byKey[k]
		if f == nil {
			continue
		}
		called := map[string]bool{}
		calledIn(f.Body, called)
		for c := range called {
			if !reach[c] {
				reach[c] = true
				work = append(work, c)
			}
		}
	}
	var kept []*Func
	for _, f := range p.Funcs {
		k := f.Name
		if f.Recv != nil {
			k = recvBase(f.Recv.T).Name + "." + f.Name
		}
		if reach[k] {
			kept = append(kept, f)
		}
	}
	p.Funcs = kept
}
