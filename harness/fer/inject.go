package fer

import (
	"strings"
)

// Site enumeration and single-site replacement on the typed AST (property C03: a well-typed
// program with exactly one rule violated somewhere).  Walk copies the program; at every
// expression site it calls onExpr, at every possible statement insertion point onBlock.
// The callbacks return nil to leave the site alone.

// RawExpr / RawStmt carry source text that the model does not understand (ill-typed code).
type RawExpr struct {
	T *Type
	S string
}

func (e *RawExpr) Type() *Type            { return e.T }
func (e *RawExpr) src(b *strings.Builder) { b.WriteString(e.S) }

type RawStmt struct{ Lines []string }

func (s *RawStmt) stmt(b *strings.Builder, ind int) {
	for _, l := range s.Lines {
		indent(b, ind)
		b.WriteString(l + "\n")
	}
}

type VarInfo struct {
	Name string
	T    *Type
}

type SiteCtx struct {
	Fn     *Func
	FnKind string   // function | method | closure (innermost)
	Chain  []string // enclosing constructs, outermost first
	Vars   []VarInfo
	InLoop bool
	// RetT / HasErr of the innermost function-like body
	RetT   *Type
	HasErr bool
}

func (c *SiteCtx) ChainKey() string {
	if len(c.Chain) == 0 {
		return c.FnKind
	}
	return c.FnKind + ">" + strings.Join(c.Chain, ">")
}

type ExprSite struct {
	SiteCtx
	Pos          string // let_init assign_rhs call_arg method_arg struct_field array_elem return_value cond logic_operand arith_operand index catch_fallback append_val range_bound var_use print_arg catch_call field_access call method_call cast_operand
	E            Expr
	Want         *Type // type required by the position (nil = none)
	SiblingTyped bool
}

type StmtSite struct {
	SiteCtx
	Index int // insertion index within the block
	Len   int // statements in the block
}

type walker struct {
	onExpr  func(s *ExprSite) Expr
	onBlock func(s *StmtSite) []Stmt
	ctx     SiteCtx
}

func Walk(p *Program, onExpr func(s *ExprSite) Expr, onBlock func(s *StmtSite) []Stmt) *Program {
	w := &walker{onExpr: onExpr, onBlock: onBlock}
	q := &Program{Types: p.Types, Globals: p.Globals, Features: p.Features}
	for _, f := range p.Funcs {
		nf := *f
		w.ctx = SiteCtx{Fn: f, FnKind: "function", RetT: f.Ret, HasErr: f.ErrT != nil}
		if f.Recv != nil {
			w.ctx.FnKind = "method"
			w.ctx.Vars = append(w.ctx.Vars, VarInfo{f.Recv.Name, f.Recv.T})
		}
		for _, pa := range f.Params {
			w.ctx.Vars = append(w.ctx.Vars, VarInfo{pa.Name, pa.T})
		}
		nf.Body = w.block(f.Body)
		q.Funcs = append(q.Funcs, &nf)
	}
	return q
}

func (w *walker) with(chain string, extra []VarInfo, f func()) {
	save := w.ctx
	w.ctx.Chain = append(append([]string(nil), w.ctx.Chain...), chain)
	w.ctx.Vars = append(append([]VarInfo(nil), w.ctx.Vars...), extra...)
	if chain == "while" || chain == "for" || chain == "forin" {
		w.ctx.InLoop = true
	}
	f()
	w.ctx = save
}

func (w *walker) block(ss []Stmt) []Stmt {
	if ss == nil {
		return nil
	}
	saveVars := w.ctx.Vars
	var out []Stmt
	for i := 0; i <= len(ss); i++ {
		if w.onBlock != nil {
			site := &StmtSite{SiteCtx: w.ctx, Index: i, Len: len(ss)}
			site.Vars = append([]VarInfo(nil), w.ctx.Vars...)
			if ins := w.onBlock(site); ins != nil {
				out = append(out, ins...)
			}
		}
		if i == len(ss) {
			break
		}
		out = append(out, w.stmt(ss[i]))
		if l, ok := ss[i].(*Let); ok {
			w.ctx.Vars = append(append([]VarInfo(nil), w.ctx.Vars...), VarInfo{l.Name, l.T})
		}
	}
	w.ctx.Vars = saveVars
	return out
}

func (w *walker) e(e Expr, pos string, want *Type, sibTyped bool) Expr {
	if e == nil {
		return nil
	}
	if w.onExpr != nil {
		site := &ExprSite{SiteCtx: w.ctx, Pos: pos, E: e, Want: want, SiblingTyped: sibTyped}
		if r := w.onExpr(site); r != nil {
			return r
		}
	}
	switch x := e.(type) {
	case *Bin:
		n := *x
		arith := x.Op == "+" || x.Op == "-" || x.Op == "*" || x.Op == "/" || x.Op == "%"
		logic := x.Op == "&&" || x.Op == "||"
		switch {
		case arith && x.T.K == KInt:
			n.L = w.e(x.L, "arith_operand", x.T, hasName(x.R))
			n.R = w.e(x.R, "arith_operand", x.T, hasName(x.L))
		case logic:
			n.L = w.e(x.L, "logic_operand", TBool, true)
			n.R = w.e(x.R, "logic_operand", TBool, true)
		default:
			n.L = w.e(x.L, "cmp_operand", nil, hasName(x.R))
			n.R = w.e(x.R, "cmp_operand", nil, hasName(x.L))
		}
		return &n
	case *Un:
		n := *x
		if x.Op == "!" {
			n.X = w.e(x.X, "logic_operand", TBool, true)
		} else {
			n.X = w.e(x.X, "unary_operand", nil, false)
		}
		return &n
	case *Cast:
		n := *x
		n.X = w.e(x.X, "cast_operand", nil, false)
		return &n
	case *Call:
		n := *x
		n.Args = make([]Expr, len(x.Args))
		for i, a := range x.Args {
			n.Args[i] = w.e(a, "call_arg", a.Type(), true)
		}
		return &n
	case *MethodCall:
		n := *x
		n.Recv = w.e(x.Recv, "receiver", nil, false)
		n.Args = make([]Expr, len(x.Args))
		for i, a := range x.Args {
			n.Args[i] = w.e(a, "method_arg", a.Type(), true)
		}
		return &n
	case *FieldX:
		n := *x
		n.X = w.e(x.X, "field_base", nil, false)
		return &n
	case *Index:
		n := *x
		n.X = w.e(x.X, "index_base", nil, false)
		if _, isLit := x.I.(*Lit); !isLit {
			n.I = w.e(x.I, "index", IntT(32, true), true)
		}
		return &n
	case *StructLit:
		n := *x
		n.Fields = make([]Expr, len(x.Fields))
		for i, a := range x.Fields {
			n.Fields[i] = w.e(a, "struct_field", x.T.Fields[i].T, true)
		}
		return &n
	case *ArrLit:
		n := *x
		n.Elems = make([]Expr, len(x.Elems))
		for i, a := range x.Elems {
			n.Elems[i] = w.e(a, "array_elem", x.T.Elem, len(x.Elems) > 1)
		}
		return &n
	case *LenX:
		n := *x
		n.X = w.e(x.X, "len_arg", nil, false)
		return &n
	case *Borrow:
		n := *x
		n.X = w.e(x.X, "borrow_operand", nil, false)
		return &n
	case *Paren:
		return &Paren{X: w.e(x.X, pos, want, sibTyped)}
	case *Deref:
		n := *x
		n.X = w.e(x.X, "deref", nil, false)
		return &n
	case *CatchCall:
		n := *x
		c := *x.Call
		c.Args = make([]Expr, len(x.Call.Args))
		for i, a := range x.Call.Args {
			c.Args[i] = w.e(a, "call_arg", a.Type(), true)
		}
		n.Call = &c
		if x.Handler != nil {
			w.with("catch_handler", []VarInfo{{x.ErrVar, TStr}}, func() { n.Handler = w.block(x.Handler) })
		}
		n.Fallback = w.e(x.Fallback, "catch_fallback", x.T, true)
		return &n
	case *FnLit:
		n := *x
		save := w.ctx
		w.ctx.FnKind = "closure"
		w.ctx.Chain = append(append([]string(nil), w.ctx.Chain...), "closure")
		w.ctx.RetT, w.ctx.HasErr, w.ctx.InLoop = x.T.Ret, false, false
		for i, pn := range x.Params {
			w.ctx.Vars = append(append([]VarInfo(nil), w.ctx.Vars...), VarInfo{pn, x.T.Params[i]})
		}
		n.Body = w.block(x.Body)
		w.ctx = save
		return &n
	}
	return e
}

func (w *walker) stmt(s Stmt) Stmt {
	switch x := s.(type) {
	case *Let:
		n := *x
		if x.Infer {
			n.Init = w.e(x.Init, "let_init_inferred", nil, false)
		} else {
			n.Init = w.e(x.Init, "let_init", x.T, true)
		}
		return &n
	case *Assign:
		n := *x
		n.LHS = w.e(x.LHS, "assign_lhs", nil, false)
		t := x.LHS.Type()
		if t != nil && t.K == KRef {
			t = t.Elem
		}
		n.RHS = w.e(x.RHS, "assign_rhs", t, true)
		return &n
	case *IncDec:
		return x
	case *If:
		n := *x
		n.Cond = w.e(x.Cond, "cond", TBool, true)
		w.with("if", nil, func() { n.Then = w.block(x.Then) })
		if x.Else != nil {
			w.with("else", nil, func() { n.Else = w.block(x.Else) })
		}
		return &n
	case *While:
		n := *x
		n.Cond = w.e(x.Cond, "cond", TBool, true)
		w.with("while", nil, func() { n.Body = w.block(x.Body) })
		return &n
	case *ForRange:
		n := *x
		n.Lo = w.e(x.Lo, "range_bound", x.T, true)
		n.Hi = w.e(x.Hi, "range_bound", x.T, true)
		n.Step = w.e(x.Step, "range_bound", x.T, true)
		w.with("for", []VarInfo{{x.Var, x.T}}, func() { n.Body = w.block(x.Body) })
		return &n
	case *ForIn:
		n := *x
		n.Arr = w.e(x.Arr, "forin_source", nil, false)
		var extra []VarInfo
		if x.Idx != "" && x.Idx != "_" {
			extra = append(extra, VarInfo{x.Idx, IntT(32, true)})
		}
		if x.Val != "" && x.Val != "_" {
			extra = append(extra, VarInfo{x.Val, elemT(recvBase(x.Arr.Type()))})
		}
		w.with("forin", extra, func() { n.Body = w.block(x.Body) })
		return &n
	case *Match:
		n := *x
		n.X = w.e(x.X, "match_scrutinee", nil, false)
		n.Arms = nil
		for _, a := range x.Arms {
			a := a
			var body []Stmt
			w.with("match_arm", nil, func() { body = w.block(a.Body) })
			n.Arms = append(n.Arms, MatchArm{Pat: a.Pat, Body: body})
		}
		if x.HasDef {
			w.with("match_default", nil, func() { n.Default = w.block(x.Default) })
			if n.Default == nil {
				n.Default = []Stmt{}
			}
		}
		return &n
	case *Return:
		if x.X == nil {
			return x
		}
		return &Return{X: w.e(x.X, "return_value", w.ctx.RetT, true)}
	case *ReturnErr:
		return &ReturnErr{X: w.e(x.X, "return_error", nil, false)}
	case *ExprStmt:
		return &ExprStmt{X: w.e(x.X, "expr_stmt", nil, false)}
	case *Print:
		n := &Print{Args: make([]Expr, len(x.Args))}
		for i, a := range x.Args {
			n.Args[i] = w.e(a, "print_arg", nil, false)
		}
		return n
	case *Append:
		n := *x
		n.Val = w.e(x.Val, "append_val", elemT(recvBase(x.Arr.Type())), true)
		return &n
	case *Block:
		n := &Block{}
		w.with("block", nil, func() { n.Body = w.block(x.Body) })
		return n
	}
	return s
}
