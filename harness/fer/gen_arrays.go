package fer

import (
	"fmt"
	"math/big"

	"pgregory.net/rapid"
)

// GenerateIndexing builds programs that concentrate on indexing: kind "fixed" ([N]T, property
// C04), "dyn" ([]T with appends, C08) or "str" (strings, C08).  Index expressions are literals,
// negative literals, consts, locals (never reassigned / reassigned before or after the access /
// reassigned in a branch / loop carried), arithmetic on those, and parameters; accesses are reads
// and writes (=, op=), with copies of the array in between.  Indices may be out of range: the
// reference semantics then stop with a panic.
func GenerateIndexing(t *rapid.T, kind string, use func(string) bool) *Program {
	g := &G{t: t, cfg: Config{Use: use}, p: &Program{Features: map[string]int{}}, incFns: map[string]*Func{}, captured: map[string]bool{}}
	i32 := IntT(32, true)
	et := rapid.SampledFrom([]*Type{IntT(32, true), IntT(64, true), IntT(8, false), IntT(16, true), IntT(64, false)}).Draw(t, "elem")
	n := g.intRange(1, 6, "len")
	var at *Type
	switch kind {
	case "fixed":
		at = &Type{K: KFixed, Elem: et, Len: n}
	case "dyn":
		at = &Type{K: KDyn, Elem: et}
	default:
		at = TStr
	}
	// helper with the index as a parameter
	var getFn *Func
	if kind != "str" {
		pt := at
		if kind == "dyn" {
			pt = &Type{K: KRef, Elem: at}
		}
		getFn = &Func{Name: "getat", Ret: et, Params: []Param{{Name: "a", T: pt}, {Name: "idx", T: i32}}}
		getFn.Body = []Stmt{&Return{X: &Index{T: et, X: &Var{T: pt, Name: "a"}, I: &Var{T: i32, Name: "idx"}}}}
		g.p.Funcs = append(g.p.Funcs, getFn)
	}
	// helper whose evaluation appends to the array: used as an index expression, so that the position
	// indexed exists only because of the append the index expression itself performed
	if kind == "dyn" {
		rt := &Type{K: KRef, Elem: at, Mut: true}
		for _, nm := range []string{"pushpos", "pushneg"} {
			pf := &Func{Name: nm, Ret: i32, Params: []Param{{Name: "a", T: rt}, {Name: "v", T: et}}}
			pf.Body = []Stmt{&Append{Arr: &Var{T: rt, Name: "a"}, Val: &Var{T: et, Name: "v"}, NoBorrow: true}}
			if nm == "pushpos" {
				pf.Body = append(pf.Body, &Return{X: &Bin{T: i32, Op: "-", L: &LenX{T: i32, X: &Var{T: rt, Name: "a"}}, R: &Lit{T: i32, I: big.NewInt(1)}}})
			} else {
				pf.Body = append(pf.Body, &Return{X: &Lit{T: i32, I: big.NewInt(-1)}})
			}
			g.p.Funcs = append(g.p.Funcs, pf)
		}
	}
	// opaque identities of wide / unsigned index types (dynamic arrays and strings only: a fixed
	// array demands a compile-time constant index)
	i64t, u32t, u64t := IntT(64, true), IntT(32, false), IntT(64, false)
	if kind != "fixed" {
		for _, wt := range []*Type{i64t, u32t, u64t, IntT(128, true), IntT(128, false)} {
			g.p.Funcs = append(g.p.Funcs, &Func{Name: "id_" + wt.String(), Ret: wt, Params: []Param{{Name: "x", T: wt}}, Body: []Stmt{&Return{X: &Var{T: wt, Name: "x"}}}})
		}
	}
	// module-level constants that the local index variables of s0 shadow (their values are far
	// out of range: a compiler that confuses the two rejects or misreads valid accesses)
	if g.chance(3, "shadowed_globals") {
		for _, nm := range []string{"fi", "vi"} {
			g.p.Globals = append(g.p.Globals, &Let{Name: nm, T: i32, Init: &Lit{T: i32, I: big.NewInt(int64(90 + len(g.p.Globals)))}, Const: true})
		}
		g.use("index.locals_shadow_module_constants")
	}
	var mayFail *Func
	f := &Func{Name: "s0"}
	arr := "arr"
	curLen := n // model of the current length (dyn arrays grow)
	f.Body = append(f.Body, &Let{Name: "canary1", T: IntT(64, true), Init: &Lit{T: IntT(64, true), I: big.NewInt(1111111111)}})
	switch kind {
	case "str":
		s := rapid.SampledFrom([]string{"a", "hello", "ferret!", "xy", "0123456789"}).Draw(t, "strval")
		curLen = len(s)
		f.Body = append(f.Body, &Let{Name: arr, T: TStr, Init: &Lit{T: TStr, S: s}})
	default:
		lit := &ArrLit{T: at}
		for i := 0; i < n; i++ {
			lit.Elems = append(lit.Elems, &Lit{T: et, I: big.NewInt(int64(10 + i))})
		}
		f.Body = append(f.Body, &Let{Name: arr, T: at, Init: lit})
	}
	f.Body = append(f.Body, &Let{Name: "canary2", T: IntT(64, true), Init: &Lit{T: IntT(64, true), I: big.NewInt(2222222222)}})
	g.declare("canary1", IntT(64, true), false)
	g.declare("canary2", IntT(64, true), false)

	idxLit := func(label string) int64 {
		// mostly valid (incl. negative from the end), sometimes just outside
		if g.chance(14, label+"_oob") {
			return int64(rapid.SampledFrom([]int{curLen, curLen + 1, -curLen - 1, -curLen - 2}).Draw(t, label+"_oobv"))
		}
		if curLen == 0 {
			return 0
		}
		return int64(g.intRange(-curLen, curLen-1, label))
	}
	// index variables of different binding kinds
	f.Body = append(f.Body, &Let{Name: "ci", T: i32, Init: &Lit{T: i32, I: big.NewInt(idxLit("ci"))}, Const: true})
	f.Body = append(f.Body, &Let{Name: "fi", T: i32, Init: &Lit{T: i32, I: big.NewInt(idxLit("fi"))}}) // never reassigned
	f.Body = append(f.Body, &Let{Name: "vi", T: i32, Init: &Lit{T: i32, I: big.NewInt(idxLit("vi"))}}) // reassigned
	u8 := IntT(8, false)
	f.Body = append(f.Body, &Let{Name: "wk", T: u8, Init: &Lit{T: u8, I: big.NewInt(250)}, Const: true})
	f.Body = append(f.Body, &Let{Name: "flag", T: TBool, Init: &Bin{T: TBool, Op: ">", L: &Var{T: IntT(64, true), Name: "canary1"}, R: &Lit{T: IntT(64, true), I: big.NewInt(int64(g.intRange(0, 1, "flagv")) * 2000000000)}}})
	arrVar := func() Expr { return &Var{T: at, Name: arr} }
	idxExpr := func(label string) Expr {
		switch g.intRange(0, 9, label+"_k") {
		case 9:
			// an index of a 64-bit or unsigned 32-bit type, possibly far outside the i32 range
			if kind == "fixed" {
				g.use("index.literal")
				return &Lit{T: i32, I: big.NewInt(idxLit(label))}
			}
			j := idxLit(label)
			wt := rapid.SampledFrom([]*Type{i64t, i64t, u32t, u64t, IntT(128, true), IntT(128, false)}).Draw(t, label+"_wt")
			v := big.NewInt(j)
			if g.chance(3, label+"_far") {
				// far outside: must be refused, not truncated to a small index
				off := new(big.Int).Lsh(big.NewInt(1), 32)
				if wt.Signed && g.chance(2, label+"_farneg") {
					v.Sub(v, off)
				} else {
					v.Add(v, off)
				}
				g.use("index.wide_type_far_out_of_range")
			}
			if lo, hi := wt.Range(); v.Cmp(lo) < 0 || v.Cmp(hi) > 0 {
				// (negative value for an unsigned type: use the all-ones pattern region instead)
				v = new(big.Int).Sub(hi, big.NewInt(int64(g.intRange(0, 2, label+"_top"))))
				g.use("index.wide_type_far_out_of_range")
			}
			g.use("index.wide_type")
			return &Call{T: wt, Fn: "id_" + wt.String(), Args: []Expr{&Lit{T: wt, I: v}}}
		case 8:
			// constant arithmetic that wraps around in its 8-bit type: (250 + d) mod 256 is the index
			j := idxLit(label)
			if j >= 0 && j < 200 {
				g.use("index.wrapping_const_arith")
				return &Bin{T: u8, Op: "+", L: &Var{T: u8, Name: "wk"}, R: &Lit{T: u8, I: big.NewInt((j - 250 + 256) % 256)}}
			}
			g.use("index.literal")
			return &Lit{T: i32, I: big.NewInt(j)}
		case 0:
			g.use("index.literal")
			return &Lit{T: i32, I: big.NewInt(idxLit(label))}
		case 1:
			g.use("index.const")
			return &Var{T: i32, Name: "ci"}
		case 2:
			g.use("index.let_never_reassigned")
			return &Var{T: i32, Name: "fi"}
		case 3, 4:
			g.use("index.let_reassigned")
			return &Var{T: i32, Name: "vi"}
		case 5:
			g.use("index.arith")
			return &Bin{T: i32, Op: rapid.SampledFrom([]string{"+", "-"}).Draw(t, label+"_op"), L: &Var{T: i32, Name: "vi"}, R: &Lit{T: i32, I: big.NewInt(int64(g.intRange(0, 2, label+"_d")))}}
		case 6:
			g.use("index.arith_const")
			return &Bin{T: i32, Op: "+", L: &Var{T: i32, Name: "ci"}, R: &Lit{T: i32, I: big.NewInt(int64(g.intRange(0, 1, label+"_d")))}}
		default:
			g.use("index.let_reassigned")
			return &Var{T: i32, Name: "vi"}
		}
	}
	printElem := func(ix Expr) Stmt {
		return &Print{Args: []Expr{&Index{T: elemT(at), X: arrVar(), I: ix}}}
	}
	nst := g.intRange(3, 10, "nst")
	for k := 0; k < nst; k++ {
		lab := fmt.Sprintf("st%d", k)
		choice := g.intRange(0, 16, lab)
		if kind == "fixed" && (choice == 6 || choice == 7 || choice == 8 || (choice >= 12 && choice <= 14)) && !g.chance(14, lab+"_nonconst") {
			choice = g.intRange(0, 5, lab+"_alt")
		}
		switch choice {
		case 0, 1, 2: // read
			f.Body = append(f.Body, &Print{Args: []Expr{&Lit{T: TStr, S: fmt.Sprintf("r%d", k)}}})
			f.Body = append(f.Body, printElem(idxExpr(lab)))
		case 3, 4: // write
			if kind == "str" {
				f.Body = append(f.Body, printElem(idxExpr(lab)))
				break
			}
			op := rapid.SampledFrom([]string{"=", "=", "+=", "-="}).Draw(t, lab+"_wop")
			g.use("index.write" + map[bool]string{true: "_compound", false: ""}[op != "="])
			f.Body = append(f.Body, &Print{Args: []Expr{&Lit{T: TStr, S: fmt.Sprintf("w%d", k)}}})
			f.Body = append(f.Body, &Assign{LHS: &Index{T: et, X: arrVar(), I: idxExpr(lab)}, Op: op, RHS: &Lit{T: et, I: big.NewInt(int64(50 + k))}})
		case 5: // reassign the index variable (before some accesses, after others)
			f.Body = append(f.Body, &Assign{LHS: &Var{T: i32, Name: "vi"}, Op: "=", RHS: &Lit{T: i32, I: big.NewInt(idxLit(lab))}})
			g.use("index.reassign")
		case 6: // reassign in one branch only
			if kind != "fixed" && !g.use("dyn.index.reassign_in_untaken_branch") {
				break
			}
			f.Body = append(f.Body, &If{Cond: &Var{T: TBool, Name: "flag"}, Then: []Stmt{&Assign{LHS: &Var{T: i32, Name: "vi"}, Op: "=", RHS: &Lit{T: i32, I: big.NewInt(idxLit(lab))}}}})
			g.use("index.reassign_in_branch")
		case 7: // loop-carried index
			lo := int64(g.intRange(-1, 1, lab+"_lo"))
			hi := lo + int64(g.intRange(0, curLen+1, lab+"_span"))
			v := g.fresh("j")
			body := []Stmt{printElem(&Var{T: i32, Name: v})}
			if kind != "str" && g.chance(2, lab+"_lw") {
				body = []Stmt{&Assign{LHS: &Index{T: et, X: arrVar(), I: &Var{T: i32, Name: v}}, Op: "=", RHS: &Lit{T: et, I: big.NewInt(int64(70 + k))}}}
			}
			f.Body = append(f.Body, &ForRange{Var: v, T: i32, Lo: &Lit{T: i32, I: big.NewInt(lo)}, Hi: &Lit{T: i32, I: big.NewInt(hi)}, Body: body})
			g.use("index.loop_carried")
		case 8: // index passed as a parameter
			if getFn != nil {
				var a Expr = arrVar()
				if kind == "dyn" {
					a = &Borrow{T: &Type{K: KRef, Elem: at}, X: arrVar()}
				}
				ix := idxExpr(lab)
				if !ix.Type().Equal(i32) {
					// the helper's index parameter is an i32
					ix = &Lit{T: i32, I: big.NewInt(idxLit(lab))}
				}
				f.Body = append(f.Body, &Print{Args: []Expr{&Call{T: et, Fn: "getat", Args: []Expr{a, ix}}}})
				g.use("index.parameter")
			}
		case 9: // copy of a fixed array, then access the copy
			if kind == "fixed" {
				c := g.fresh("cp")
				f.Body = append(f.Body, &Let{Name: c, T: at, Init: arrVar()})
				f.Body = append(f.Body, &Assign{LHS: &Index{T: et, X: &Var{T: at, Name: c}, I: idxExpr(lab)}, Op: "=", RHS: &Lit{T: et, I: big.NewInt(int64(90 + k))}})
				f.Body = append(f.Body, &Print{Args: []Expr{&Index{T: et, X: &Var{T: at, Name: c}, I: &Lit{T: i32, I: big.NewInt(0)}}}})
				g.use("index.copy")
			}
		case 12, 13: // the index variable is assigned by a function literal (called now, later or never)
			fn := g.fresh("set")
			ft := &Type{K: KFn, Params: []*Type{i32}, Ret: TVoid}
			f.Body = append(f.Body, &Let{Name: fn, T: ft, Infer: true, Init: &FnLit{T: ft, Params: []string{"n"}, Body: []Stmt{&Assign{LHS: &Var{T: i32, Name: "vi"}, Op: "=", RHS: &Var{T: i32, Name: "n"}}}}})
			if choice == 12 {
				f.Body = append(f.Body, &ExprStmt{X: &Call{T: TVoid, Fn: fn, Args: []Expr{&Lit{T: i32, I: big.NewInt(idxLit(lab))}}}})
				g.use("index.assigned_by_closure_call")
			} else {
				g.use("index.assigned_by_uncalled_closure")
			}
		case 15, 16: // a function literal indexes with a captured variable (of any integer type) that is reassigned afterwards
			if kind == "str" && choice == 16 {
				break
			}
			wt := rapid.SampledFrom([]*Type{i32, i64t, u32t, u64t, IntT(128, true), IntT(128, false), i64t, u64t}).Draw(t, lab+"_cwt")
			first := idxLit(lab + "_c0")
			if !wt.Signed && first < 0 {
				first = 0
			}
			next := big.NewInt(idxLit(lab + "_c1"))
			if g.chance(2, lab+"_cfar") {
				// far outside the i32 range: must be refused, not truncated or reinterpreted
				_, hi := wt.Range()
				switch g.intRange(0, 3, lab+"_cfark") {
				case 0:
					next.Add(next, new(big.Int).Lsh(big.NewInt(1), 32))
				case 1:
					next.Sub(next, new(big.Int).Lsh(big.NewInt(1), 32))
				case 2:
					next = new(big.Int).Sub(hi, big.NewInt(int64(g.intRange(0, curLen+1, lab+"_ctop")))) // all-ones region
				default:
					next.Add(next, new(big.Int).Lsh(big.NewInt(1), 31))
				}
				g.use("index.captured_wide_far_out_of_range")
			}
			if lo, hi := wt.Range(); next.Cmp(lo) < 0 || next.Cmp(hi) > 0 {
				next = new(big.Int).Sub(hi, big.NewInt(int64(g.intRange(0, curLen+1, lab+"_ctop2"))))
			}
			wj := g.fresh("wj")
			fn := g.fresh("acc")
			f.Body = append(f.Body, &Let{Name: wj, T: wt, Init: &Lit{T: wt, I: big.NewInt(first)}})
			call := func() Stmt {
				if choice == 15 {
					return &Print{Args: []Expr{&Call{T: elemT(at), Fn: fn}}}
				}
				return &ExprStmt{X: &Call{T: TVoid, Fn: fn, Args: []Expr{&Lit{T: et, I: big.NewInt(int64(60 + k))}}}}
			}
			if choice == 15 {
				ft := &Type{K: KFn, Ret: elemT(at)}
				f.Body = append(f.Body, &Let{Name: fn, T: ft, Infer: true, Init: &FnLit{T: ft, Body: []Stmt{&Return{X: &Index{T: elemT(at), X: arrVar(), I: &Var{T: wt, Name: wj}}}}}})
				g.use("index.captured_variable_read_in_closure")
			} else {
				ft := &Type{K: KFn, Params: []*Type{et}, Ret: TVoid}
				f.Body = append(f.Body, &Let{Name: fn, T: ft, Infer: true, Init: &FnLit{T: ft, Params: []string{"nv"}, Body: []Stmt{&Assign{LHS: &Index{T: et, X: arrVar(), I: &Var{T: wt, Name: wj}}, Op: "=", RHS: &Var{T: et, Name: "nv"}}}}})
				g.use("index.captured_variable_write_in_closure")
			}
			f.Body = append(f.Body, call())
			f.Body = append(f.Body, &Assign{LHS: &Var{T: wt, Name: wj}, Op: "=", RHS: &Lit{T: wt, I: next}})
			f.Body = append(f.Body, &Print{Args: []Expr{&Lit{T: TStr, S: fmt.Sprintf("c%d", k)}}}, call())
		case 14: // the index variable is assigned in a catch handler that runs or does not run
			if mayFail == nil {
				str := TStr
				mayFail = &Func{Name: "mayfail", Ret: i32, ErrT: str, Params: []Param{{Name: "x", T: i32}}}
				mayFail.Body = []Stmt{&If{Cond: &Bin{T: TBool, Op: ">", L: &Var{T: i32, Name: "x"}, R: &Lit{T: i32, I: big.NewInt(0)}}, Then: []Stmt{&ReturnErr{X: &Lit{T: TStr, S: "e"}}}}, &Return{X: &Var{T: i32, Name: "x"}}}
				g.p.Funcs = append(g.p.Funcs, mayFail)
			}
			tmp := g.fresh("rc")
			arg := int64(g.intRange(0, 1, lab+"_fails"))
			f.Body = append(f.Body, &Let{Name: tmp, T: i32, Init: &CatchCall{T: i32, Call: &Call{T: i32, Fn: "mayfail", Args: []Expr{&Lit{T: i32, I: big.NewInt(arg)}}}, ErrVar: g.fresh("er"),
				Handler: []Stmt{&Assign{LHS: &Var{T: i32, Name: "vi"}, Op: "=", RHS: &Lit{T: i32, I: big.NewInt(idxLit(lab))}}}, Fallback: &Lit{T: i32, I: big.NewInt(0)}}})
			g.use("index.assigned_in_catch_handler")
		case 10, 11: // dynamic arrays grow
			if kind == "dyn" && g.chance(3, lab+"_pushidx") && g.use("dyn.index_expr_appends") {
				fn := rapid.SampledFrom([]string{"pushpos", "pushneg"}).Draw(t, lab+"_pushfn")
				rt := &Type{K: KRef, Elem: at, Mut: true}
				ix := &Call{T: i32, Fn: fn, Args: []Expr{&Borrow{T: rt, X: arrVar()}, &Lit{T: et, I: big.NewInt(int64(40 + k))}}}
				f.Body = append(f.Body, &Print{Args: []Expr{&Index{T: et, X: arrVar(), I: ix}}})
				curLen++
				break
			}
			if kind == "dyn" {
				f.Body = append(f.Body, &Append{Arr: arrVar(), Val: &Lit{T: et, I: big.NewInt(int64(30 + k))}})
				curLen++
				g.use("dyn.append")
			}
		}
	}
	// dump everything: the whole array, its length, the canaries
	if kind == "dyn" {
		x := g.fresh("x")
		f.Body = append(f.Body, &Print{Args: []Expr{&Lit{T: TStr, S: "dump"}}})
		f.Body = append(f.Body, &ForIn{Val: x, Arr: arrVar(), Body: []Stmt{&Print{Args: []Expr{&Var{T: et, Name: x}}}}})
	} else if kind == "fixed" {
		// (for-in over a fixed array is not supported by the compiler: dump with literal indices)
		f.Body = append(f.Body, &Print{Args: []Expr{&Lit{T: TStr, S: "dump"}}})
		for i := 0; i < n; i++ {
			f.Body = append(f.Body, &Print{Args: []Expr{&Index{T: et, X: arrVar(), I: &Lit{T: i32, I: big.NewInt(int64(i))}}}})
		}
	}
	f.Body = append(f.Body, &Print{Args: []Expr{&LenX{T: i32, X: arrVar()}, &Var{T: IntT(64, true), Name: "canary1"}, &Var{T: IntT(64, true), Name: "canary2"}, &Var{T: i32, Name: "vi"}}})
	g.p.Funcs = append(g.p.Funcs, f)
	g.p.Funcs = append(g.p.Funcs, &Func{Name: "main", Body: []Stmt{&ExprStmt{X: &Call{T: TVoid, Fn: "s0"}}, &Print{Args: []Expr{&Lit{T: TStr, S: "end"}}}}})
	g.p.Prune()
	return g.p
}

func elemT(t *Type) *Type {
	if t.K == KStr {
		return TByte
	}
	return t.Elem
}
