// Package fer is an executable model of Ferret's core language, written from
// the property statements and the README (never from the compiler): a typed
// AST, a printer, a type-directed generator of valid programs, and a reference
// interpreter (math/big reduced to the declared width after every operation,
// truncating division, strict left-to-right evaluation, by-value structs and
// fixed arrays, write-through references).
package fer

import (
	"fmt"
	"math/big"
	"strings"
)

type Kind int

const (
	KInt Kind = iota
	KBool
	KStr
	KStruct
	KEnum
	KFixed
	KDyn
	KRef
	KFn
	KVoid
)

type Field struct {
	Name string
	T    *Type
}

type Type struct {
	K        Kind
	Bits     int
	Signed   bool
	Name     string
	Fields   []Field
	Variants []string
	Elem     *Type
	Len      int
	Mut      bool
	Params   []*Type
	Ret      *Type
	Byte     bool // the `byte` type (printed as a character)
}

// TByte is the element type of string indexing.
var TByte = &Type{K: KInt, Bits: 8, Byte: true}

var (
	TBool = &Type{K: KBool}
	TStr  = &Type{K: KStr}
	TVoid = &Type{K: KVoid}
)

var intTypes = map[string]*Type{}

func IntT(bits int, signed bool) *Type {
	n := fmt.Sprintf("u%d", bits)
	if signed {
		n = fmt.Sprintf("i%d", bits)
	}
	if t, ok := intTypes[n]; ok {
		return t
	}
	t := &Type{K: KInt, Bits: bits, Signed: signed}
	intTypes[n] = t
	return t
}

func (t *Type) String() string {
	switch t.K {
	case KInt:
		if t.Byte {
			return "byte"
		}
		if t.Signed {
			return fmt.Sprintf("i%d", t.Bits)
		}
		return fmt.Sprintf("u%d", t.Bits)
	case KBool:
		return "bool"
	case KStr:
		return "str"
	case KStruct, KEnum:
		return t.Name
	case KFixed:
		return fmt.Sprintf("[%d]%s", t.Len, t.Elem)
	case KDyn:
		return "[]" + t.Elem.String()
	case KRef:
		if t.Mut {
			return "&'" + t.Elem.String()
		}
		return "&" + t.Elem.String()
	case KFn:
		var ps []string
		for i, p := range t.Params {
			ps = append(ps, fmt.Sprintf("p%d: %s", i, p))
		}
		s := "fn(" + strings.Join(ps, ", ") + ")"
		if t.Ret != nil && t.Ret.K != KVoid {
			s += " -> " + t.Ret.String()
		}
		return s
	case KVoid:
		return "void"
	}
	return "?"
}

func (t *Type) Equal(o *Type) bool {
	if t == o {
		return true
	}
	if t == nil || o == nil || t.K != o.K {
		return false
	}
	switch t.K {
	case KInt:
		return t.Bits == o.Bits && t.Signed == o.Signed
	case KStruct, KEnum:
		return t.Name == o.Name
	case KFixed:
		return t.Len == o.Len && t.Elem.Equal(o.Elem)
	case KDyn:
		return t.Elem.Equal(o.Elem)
	case KRef:
		return t.Mut == o.Mut && t.Elem.Equal(o.Elem)
	}
	return true
}

func (t *Type) Range() (lo, hi *big.Int) {
	one := big.NewInt(1)
	if t.Signed {
		h := new(big.Int).Lsh(one, uint(t.Bits-1))
		return new(big.Int).Neg(h), new(big.Int).Sub(h, one)
	}
	return big.NewInt(0), new(big.Int).Sub(new(big.Int).Lsh(one, uint(t.Bits)), one)
}

// Wrap reduces v to the type's width (two's complement).
func (t *Type) Wrap(v *big.Int) *big.Int {
	m := new(big.Int).Lsh(big.NewInt(1), uint(t.Bits))
	r := new(big.Int).Mod(v, m)
	if t.Signed && r.Bit(t.Bits-1) == 1 {
		r.Sub(r, m)
	}
	return r
}

// ---------------------------------------------------------------- expressions

type Expr interface {
	Type() *Type
	src(b *strings.Builder)
}

type Lit struct {
	T *Type
	I *big.Int
	B bool
	S string
}
type Var struct {
	T    *Type
	Name string
}
type Bin struct {
	T    *Type
	Op   string
	L, R Expr
}
type Un struct {
	T  *Type
	Op string
	X  Expr
}
type Cast struct {
	T *Type
	X Expr
}
type Call struct {
	T    *Type
	Fn   string
	Args []Expr
}
type MethodCall struct {
	T    *Type
	Recv Expr
	Name string
	Args []Expr
}
type FieldX struct {
	T    *Type
	X    Expr
	Name string
}
type Index struct {
	T *Type
	X Expr
	I Expr
}
type StructLit struct {
	T      *Type
	Fields []Expr
}
type ArrLit struct {
	T     *Type
	Elems []Expr
}
type EnumVal struct {
	T *Type
	V int
}
type LenX struct {
	T *Type
	X Expr
}
type Borrow struct {
	T *Type
	X Expr
}
type Paren struct{ X Expr }

// CatchCall: f(args) catch fallback   |  f(args) catch e { handler } fallback
type CatchCall struct {
	T        *Type
	Call     *Call
	ErrVar   string
	Handler  []Stmt
	Fallback Expr
}

// FnLit: fn(params) -> ret { body }
type FnLit struct {
	T      *Type
	Params []string
	Body   []Stmt
}

func (e *Lit) Type() *Type        { return e.T }
func (e *Var) Type() *Type        { return e.T }
func (e *Bin) Type() *Type        { return e.T }
func (e *Un) Type() *Type         { return e.T }
func (e *Cast) Type() *Type       { return e.T }
func (e *Call) Type() *Type       { return e.T }
func (e *MethodCall) Type() *Type { return e.T }
func (e *FieldX) Type() *Type     { return e.T }
func (e *Index) Type() *Type      { return e.T }
func (e *StructLit) Type() *Type  { return e.T }
func (e *ArrLit) Type() *Type     { return e.T }
func (e *EnumVal) Type() *Type    { return e.T }
func (e *LenX) Type() *Type       { return e.T }
func (e *Borrow) Type() *Type     { return e.T }
func (e *Paren) Type() *Type      { return e.X.Type() }
func (e *CatchCall) Type() *Type  { return e.T }
func (e *FnLit) Type() *Type      { return e.T }

// ---------------------------------------------------------------- statements

type Stmt interface {
	stmt(b *strings.Builder, ind int)
}

type Let struct {
	Name  string
	T     *Type
	Init  Expr
	Const bool
	Infer bool // `let x := e`
}
type Assign struct {
	LHS Expr
	Op  string // "=", "+=", ...
	RHS Expr
}
type IncDec struct {
	LHS Expr
	Op  string // ++ | --
}
type If struct {
	Cond Expr
	Then []Stmt
	Else []Stmt // nil = no else; a single *If = else if
}
type While struct {
	Cond Expr
	Body []Stmt
}
type ForRange struct {
	Var       string
	T         *Type
	Lo, Hi    Expr
	Step      Expr // nil = 1; `lo..hi:step` (the sign of step gives the direction)
	Inclusive bool
	Body      []Stmt
}
type ForIn struct {
	Idx, Val string // "" = absent, "_" = discarded
	Arr      Expr
	Body     []Stmt
}
type MatchArm struct {
	Pat  Expr // Lit or EnumVal
	Body []Stmt
}
type Match struct {
	X       Expr
	Arms    []MatchArm
	Default []Stmt // nil = no default arm
	HasDef  bool
}
type Return struct{ X Expr }
type ReturnErr struct{ X Expr } // return e!;
type ExprStmt struct{ X Expr }
type Print struct{ Args []Expr }
type Break struct{}
type Continue struct{}
type Append struct {
	Arr      Expr // place of []T (or a variable of type &'[]T when NoBorrow)
	Val      Expr
	NoBorrow bool // append(a, v) with a: &'[]T
}
type Block struct{ Body []Stmt }

// ---------------------------------------------------------------- declarations

type Param struct {
	Name string
	T    *Type
}
type Func struct {
	Name   string
	Recv   *Param // method receiver (nil for functions)
	Params []Param
	Ret    *Type // nil/void = no result
	ErrT   *Type // non-nil: result type  ErrT ! Ret
	Body   []Stmt
}
type Program struct {
	Types []*Type
	// Globals are module-level constants (only ever shadowed by locals in generated programs)
	Globals []*Let
	Funcs   []*Func
	// Features lists the generator features the program uses (for known-finding exclusion and labels).
	Features map[string]int
}
