package fer

import (
	"fmt"
	"math/big"

	"pgregory.net/rapid"
)

// GenerateReturns builds programs for C05: non-void functions, methods and function literals whose
// bodies are nested if / else-if / else, match with and without a default arm, while / for loops with
// break / continue, and early returns; the parameters drive every branch.  Some bodies end without a
// return on some path (the compiler must reject those); main calls every function on a set of
// argument tuples and prints the results.
func GenerateReturns(t *rapid.T, use func(string) bool) *Program {
	g := &G{t: t, cfg: Config{Use: use}, p: &Program{Features: map[string]int{}}, incFns: map[string]*Func{}, captured: map[string]bool{}}
	i32 := IntT(32, true)
	e := &Type{K: KEnum, Name: "E0", Variants: []string{"V0", "V1", "V2"}}
	st := &Type{K: KStruct, Name: "S0", Fields: []Field{{Name: "F0", T: i32}}}
	g.p.Types = append(g.p.Types, e, st)
	nf := g.intRange(1, 3, "nfuncs")
	var mainBody []Stmt
	for k := 0; k < nf; k++ {
		kind := rapid.SampledFrom([]string{"fn", "fn", "method", "literal"}).Draw(t, "fkind")
		if kind == "literal" && !g.use("returns.function_literal") {
			kind = "fn"
		}
		name := g.fresh("f")
		params := []Param{{Name: "a", T: i32}, {Name: "b", T: i32}, {Name: "e", T: e}}
		g.vars = nil
		for _, p := range params {
			g.declare(p.Name, p.T, false)
		}
		body, returns := g.retBlock(g.intRange(1, 3, "depth"), g.intRange(1, 3, "nst"))
		if !returns {
			// either close the body with a return (valid) or leave a path that reaches the end
			if g.chance(3, "leave_open") {
				g.use("returns.body_can_fall_off")
			} else {
				body = append(body, &Return{X: g.retExpr()})
			}
		}
		argsFor := func(i int) []Expr {
			return []Expr{&Lit{T: i32, I: big.NewInt(int64(g.intRange(-3, 6, fmt.Sprintf("arg_a%d", i))))}, &Lit{T: i32, I: big.NewInt(int64(g.intRange(-3, 6, fmt.Sprintf("arg_b%d", i))))},
				&EnumVal{T: e, V: g.intRange(0, 2, fmt.Sprintf("arg_e%d", i))}}
		}
		ncalls := g.intRange(4, 9, "ncalls")
		switch kind {
		case "fn":
			g.p.Funcs = append(g.p.Funcs, &Func{Name: name, Params: params, Ret: i32, Body: body})
			for i := 0; i < ncalls; i++ {
				mainBody = append(mainBody, &Print{Args: []Expr{&Call{T: i32, Fn: name, Args: argsFor(i)}}})
			}
		case "method":
			g.use("returns.method")
			g.p.Funcs = append(g.p.Funcs, &Func{Name: name, Recv: &Param{Name: "s", T: &Type{K: KRef, Elem: st}}, Params: params, Ret: i32, Body: body})
			recv := g.fresh("p")
			mainBody = append(mainBody, &Let{Name: recv, T: st, Init: &StructLit{T: st, Fields: []Expr{&Lit{T: i32, I: big.NewInt(1)}}}})
			for i := 0; i < ncalls; i++ {
				mainBody = append(mainBody, &Print{Args: []Expr{&MethodCall{T: i32, Recv: &Var{T: st, Name: recv}, Name: name, Args: argsFor(i)}}})
			}
		case "literal":
			ft := &Type{K: KFn, Params: []*Type{i32, i32, e}, Ret: i32}
			lit := &FnLit{T: ft, Params: []string{"a", "b", "e"}, Body: body}
			// where the literal stands: directly in main, inside other function literals, inside a
			// function or method (possibly in a loop body there)
			place := g.intRange(0, 5, "litplace")
			if place > 0 && !g.use("returns.function_literal_nested") {
				place = 0
			}
			host := func(depth int) []Stmt {
				in := g.fresh("in")
				call := &Return{X: &Call{T: i32, Fn: in, Args: []Expr{&Var{T: i32, Name: "x"}, &Var{T: i32, Name: "y"}, &Var{T: e, Name: "z"}}}}
				inner := []Stmt{&Let{Name: in, T: ft, Infer: true, Init: lit}, call}
				for d := 1; d < depth; d++ {
					// one more function literal around it
					mid := g.fresh("in")
					inner = []Stmt{&Let{Name: mid, T: ft, Infer: true, Init: &FnLit{T: ft, Params: []string{"x", "y", "z"}, Body: inner}},
						&Return{X: &Call{T: i32, Fn: mid, Args: []Expr{&Var{T: i32, Name: "x"}, &Var{T: i32, Name: "y"}, &Var{T: e, Name: "z"}}}}}
				}
				return inner
			}
			hostParams := []Param{{Name: "x", T: i32}, {Name: "y", T: i32}, {Name: "z", T: e}}
			switch place {
			case 1, 2: // inside one or two enclosing function literals
				mainBody = append(mainBody, &Let{Name: name, T: ft, Infer: true, Init: &FnLit{T: ft, Params: []string{"x", "y", "z"}, Body: host(place)}})
			case 3: // inside a function
				g.p.Funcs = append(g.p.Funcs, &Func{Name: name, Params: hostParams, Ret: i32, Body: host(g.intRange(1, 2, "hostdepth"))})
			case 4: // inside a loop body of a function
				q := g.fresh("q")
				g.p.Funcs = append(g.p.Funcs, &Func{Name: name, Params: hostParams, Ret: i32, Body: []Stmt{
					&ForRange{Var: q, T: i32, Lo: &Lit{T: i32, I: big.NewInt(0)}, Hi: &Lit{T: i32, I: big.NewInt(2)}, Body: host(1)},
					&Return{X: &Lit{T: i32, I: big.NewInt(-77)}}}})
			case 5: // inside a method
				g.p.Funcs = append(g.p.Funcs, &Func{Name: name, Recv: &Param{Name: "s", T: &Type{K: KRef, Elem: st}}, Params: hostParams, Ret: i32, Body: host(g.intRange(1, 2, "hostdepth"))})
				recv := g.fresh("p")
				mainBody = append(mainBody, &Let{Name: recv, T: st, Init: &StructLit{T: st, Fields: []Expr{&Lit{T: i32, I: big.NewInt(1)}}}})
				for i := 0; i < ncalls; i++ {
					mainBody = append(mainBody, &Print{Args: []Expr{&MethodCall{T: i32, Recv: &Var{T: st, Name: recv}, Name: name, Args: argsFor(i)}}})
				}
				continue
			default:
				mainBody = append(mainBody, &Let{Name: name, T: ft, Infer: true, Init: lit})
			}
			for i := 0; i < ncalls; i++ {
				r := g.fresh("r")
				mainBody = append(mainBody, &Let{Name: r, T: i32, Init: &Call{T: i32, Fn: name, Args: argsFor(i)}}, &Print{Args: []Expr{&Var{T: i32, Name: r}}})
			}
		}
	}
	mainBody = append(mainBody, &Print{Args: []Expr{&Lit{T: TStr, S: "end"}}})
	g.p.Funcs = append(g.p.Funcs, &Func{Name: "main", Body: mainBody})
	return g.p
}

func (g *G) retExpr() Expr {
	i32 := IntT(32, true)
	switch g.intRange(0, 3, "rexpr") {
	case 0:
		return &Lit{T: i32, I: big.NewInt(int64(g.intRange(0, 99, "rlit")))}
	case 1:
		return &Bin{T: i32, Op: "+", L: &Var{T: i32, Name: "a"}, R: &Lit{T: i32, I: big.NewInt(int64(g.intRange(100, 900, "rlit")))}}
	case 2:
		return &Bin{T: i32, Op: "*", L: &Var{T: i32, Name: "b"}, R: &Lit{T: i32, I: big.NewInt(int64(g.intRange(2, 9, "rlit")))}}
	default:
		return &Bin{T: i32, Op: "-", L: &Var{T: i32, Name: "a"}, R: &Var{T: i32, Name: "b"}}
	}
}

func (g *G) retCond() Expr {
	i32 := IntT(32, true)
	v := rapid.SampledFrom([]string{"a", "b"}).Draw(g.t, "cvar")
	if g.chance(4, "enumcond") {
		return &Bin{T: TBool, Op: rapid.SampledFrom([]string{"==", "!="}).Draw(g.t, "eop"), L: &Var{T: &Type{K: KEnum, Name: "E0", Variants: []string{"V0", "V1", "V2"}}, Name: "e"},
			R: &EnumVal{T: &Type{K: KEnum, Name: "E0", Variants: []string{"V0", "V1", "V2"}}, V: g.intRange(0, 2, "ev")}}
	}
	return &Bin{T: TBool, Op: rapid.SampledFrom([]string{"<", ">", "==", ">=", "!="}).Draw(g.t, "cop"), L: &Var{T: i32, Name: v}, R: &Lit{T: i32, I: big.NewInt(int64(g.intRange(-1, 4, "clit")))}}
}

// retBlock generates a block; the bool says whether every path through it ends in a return
// (by the syntactic rule: return; if/else-if/else whose branches all return; match with a default
// arm whose arms all return).  No statement is generated after such a statement (unreachable code
// is a compile error).
func (g *G) retBlock(depth, n int) ([]Stmt, bool) {
	var out []Stmt
	for i := 0; i < n; i++ {
		s, ret := g.retStmt(depth)
		out = append(out, s...)
		if ret {
			return out, true
		}
	}
	return out, false
}

func (g *G) retStmt(depth int) ([]Stmt, bool) {
	i32 := IntT(32, true)
	e := &Type{K: KEnum, Name: "E0", Variants: []string{"V0", "V1", "V2"}}
	kind := g.intRange(0, 12, "rkind")
	if depth <= 0 {
		kind = g.intRange(0, 2, "rleaf")
	}
	switch kind {
	case 0:
		return []Stmt{&Return{X: g.retExpr()}}, true
	case 1, 2: // side effect that is observable: print
		return []Stmt{&Print{Args: []Expr{&Lit{T: TStr, S: g.fresh("p")}, &Var{T: i32, Name: "a"}}}}, false
	case 3, 4: // if with optional else / else-if chain
		s := &If{Cond: g.retCond()}
		var r1, r2 bool
		s.Then, r1 = g.retBlock(depth-1, g.intRange(1, 2, "nthen"))
		switch g.intRange(0, 2, "else") {
		case 0:
			return []Stmt{s}, false
		case 1:
			s.Else, r2 = g.retBlock(depth-1, g.intRange(1, 2, "nelse"))
			g.use("returns.if_else")
			return []Stmt{s}, r1 && r2
		default:
			inner := &If{Cond: g.retCond()}
			var r3, r4 bool
			inner.Then, r3 = g.retBlock(depth-1, 1)
			if g.chance(2, "final_else") {
				inner.Else, r4 = g.retBlock(depth-1, 1)
			}
			s.Else = []Stmt{inner}
			g.use("returns.else_if")
			return []Stmt{s}, r1 && r3 && r4 && inner.Else != nil
		}
	case 5: // match on an int with/without default
		m := &Match{X: &Var{T: i32, Name: rapid.SampledFrom([]string{"a", "b"}).Draw(g.t, "mvar")}, HasDef: g.chance(2, "mdef")}
		all := true
		seen := map[int]bool{}
		for k := 0; k < g.intRange(1, 3, "narms"); k++ {
			v := g.intRange(-1, 4, "mval")
			if seen[v] {
				continue
			}
			seen[v] = true
			b, r := g.retBlock(depth-1, 1)
			all = all && r
			m.Arms = append(m.Arms, MatchArm{Pat: &Lit{T: i32, I: big.NewInt(int64(v))}, Body: b})
		}
		if m.HasDef {
			var r bool
			m.Default, r = g.retBlock(depth-1, 1)
			all = all && r
			g.use("returns.match_int_default")
		} else {
			g.use("returns.match_int_no_default")
		}
		return []Stmt{m}, all && m.HasDef
	case 6: // match on the enum: all variants listed, or fewer with/without default
		m := &Match{X: &Var{T: e, Name: "e"}}
		nv := g.intRange(1, 3, "nvar")
		all := true
		for v := 0; v < nv; v++ {
			b, r := g.retBlock(depth-1, 1)
			all = all && r
			m.Arms = append(m.Arms, MatchArm{Pat: &EnumVal{T: e, V: v}, Body: b})
		}
		if nv < 3 && g.chance(2, "edef") {
			m.HasDef = true
			var r bool
			m.Default, r = g.retBlock(depth-1, 1)
			all = all && r
		}
		if !m.HasDef {
			g.use("returns.match_enum_no_default")
		}
		// without a default arm the syntactic rule never counts the match as returning (even when all variants are listed)
		return []Stmt{m}, all && m.HasDef
	case 7: // fuelled while with break / continue / return inside
		fuel := g.fresh("fuel")
		fv := &Var{T: i32, Name: fuel}
		body := []Stmt{&Assign{LHS: fv, Op: "=", RHS: &Bin{T: i32, Op: "-", L: fv, R: &Lit{T: i32, I: big.NewInt(1)}}}}
		inner, _ := g.retBlock(depth-1, g.intRange(1, 2, "nbody"))
		if len(inner) > 0 {
			if _, isRet := inner[len(inner)-1].(*Return); isRet {
				// an unconditional return as the last statement of a loop body is fine
			}
		}
		body = append(body, inner...)
		if g.chance(3, "brk") {
			if !endsInJump(body) {
				body = append(body, &If{Cond: g.retCond(), Then: []Stmt{rapid.SampledFrom([]Stmt{&Break{}, &Continue{}}).Draw(g.t, "bc")}})
			}
		}
		g.use("returns.while")
		return []Stmt{&Let{Name: fuel, T: i32, Init: &Lit{T: i32, I: big.NewInt(int64(g.intRange(0, 3, "fuelv")))}}, &While{Cond: &Bin{T: TBool, Op: ">", L: fv, R: &Lit{T: i32, I: big.NewInt(0)}}, Body: body}}, false
	case 8: // for range with returns inside
		v := g.fresh("i")
		inner, _ := g.retBlock(depth-1, g.intRange(1, 2, "nbody"))
		g.use("returns.for")
		return []Stmt{&ForRange{Var: v, T: i32, Lo: &Lit{T: i32, I: big.NewInt(0)}, Hi: &Lit{T: i32, I: big.NewInt(int64(g.intRange(0, 3, "hi")))}, Body: inner}}, false
	case 9: // `while true { ...; break; }`: left only through the break (or a return)
		inner, ret := g.retBlock(depth-1, g.intRange(1, 2, "nbody"))
		g.use("returns.while_true")
		if !ret && g.chance(2, "for_first") {
			// a loop whose body cannot fall through, directly followed by the break of the enclosing loop
			v := g.fresh("i")
			fb, _ := g.retBlock(0, 1)
			if !endsInJump(fb) {
				fb = append(fb, &Return{X: g.retExpr()})
			}
			inner = append([]Stmt{&ForRange{Var: v, T: i32, Lo: &Lit{T: i32, I: big.NewInt(0)}, Hi: &Bin{T: i32, Op: "-", L: &Var{T: i32, Name: "a"}, R: &Lit{T: i32, I: big.NewInt(int64(g.intRange(0, 2, "forhi")))}}, Body: fb}}, inner...)
			inner = inner[:1]
		}
		if ret {
			// the body returns on all paths: the loop never falls through
			return []Stmt{&While{Cond: &Lit{T: TBool, B: true}, Body: inner}}, true
		}
		inner = append(inner, &Break{})
		return []Stmt{&While{Cond: &Lit{T: TBool, B: true}, Body: inner}}, false
	case 11, 12: // a loop guarded by a mutable flag (or a constant-valued condition) that may be re-armed afterwards
		fl := g.fresh("fl")
		fv := &Var{T: TBool, Name: fl}
		var init Expr
		switch g.intRange(0, 3, "flinit") {
		case 0:
			init = &Lit{T: TBool, B: false}
		case 1:
			init = &Lit{T: TBool, B: true}
		default:
			init = g.retCond()
		}
		inner, _ := g.retBlock(depth-1, g.intRange(1, 2, "nbody"))
		body := append([]Stmt{&Assign{LHS: fv, Op: "=", RHS: &Lit{T: TBool, B: false}}}, inner...)
		out := []Stmt{&Let{Name: fl, T: TBool, Init: init, Infer: g.chance(2, "flinfer")}, &While{Cond: fv, Body: body}}
		if g.chance(2, "rearm") {
			// the textually last assignment makes the flag "true" for a flow-insensitive analysis
			out = append(out, &Assign{LHS: fv, Op: "=", RHS: &Lit{T: TBool, B: true}})
		}
		g.use("returns.flag_loop")
		return out, false
	default:
		n := g.fresh("t")
		return []Stmt{&Let{Name: n, T: i32, Init: g.retExpr()}, &Print{Args: []Expr{&Var{T: i32, Name: n}}}}, false
	}
}

func endsInJump(body []Stmt) bool {
	if len(body) == 0 {
		return false
	}
	switch body[len(body)-1].(type) {
	case *Return, *Break, *Continue:
		return true
	}
	return false
}
