package fer

import (
	"fmt"
	"math/big"

	"pgregory.net/rapid"
)

// GenerateLayouts builds programs for the black-box half of C18: composite values whose
// sizes are not multiples of their neighbours' alignment (structs of 1-5 fields over 8/16/32/64
// bit integers and bools, nested structs, small fixed arrays as fields, arrays of such structs,
// small-integer arrays) are stored element-wise, field-wise and as wholes, copied, passed by
// value, returned, and after every step every leaf of every
// variable is printed - a store that touches a neighbouring component shows up in the next dump.
func GenerateLayouts(t *rapid.T, use func(string) bool) *Program {
	g := &G{t: t, cfg: Config{Use: use}, p: &Program{Features: map[string]int{}}, incFns: map[string]*Func{}, captured: map[string]bool{}}
	i32 := IntT(32, true)
	prims := []*Type{IntT(8, false), IntT(8, true), IntT(16, false), IntT(16, true), IntT(32, false), i32, IntT(64, false), IntT(64, true), TBool,
		IntT(8, false), IntT(16, false), IntT(8, true)}
	// types: S0 (leaf struct), optionally S1 containing S0 and/or a small array
	mkStruct := func(name string, inner *Type) *Type {
		st := &Type{K: KStruct, Name: name}
		nf := g.intRange(1, 7, "nfields")
		for j := 0; j < nf; j++ {
			var ft *Type
			switch {
			case inner != nil && j == nf/2:
				ft = inner
			case g.chance(6, "arrfield"):
				ft = &Type{K: KFixed, Elem: prims[g.intRange(0, 3, "arrfieldelem")], Len: g.intRange(1, 5, "arrfieldlen")}
			default:
				ft = prims[g.intRange(0, len(prims)-1, "ftype")]
			}
			st.Fields = append(st.Fields, Field{Name: fmt.Sprintf("F%d", j), T: ft})
		}
		return st
	}
	s0 := mkStruct("S0", nil)
	g.p.Types = append(g.p.Types, s0)
	structs := []*Type{s0}
	if g.chance(2, "nested") {
		s1 := mkStruct("S1", s0)
		g.p.Types = append(g.p.Types, s1)
		structs = append(structs, s1)
	}
	// a sibling of S0: same field names, one or two fields in the middle of another width (types that
	// look alike in every summary - same count, same first and last fields - must still be laid out apart)
	var sib *Type
	if g.chance(2, "sibling") {
		sib = &Type{K: KStruct, Name: "S2"}
		sib.Fields = append(sib.Fields, s0.Fields...)
		nfs := len(sib.Fields)
		lo, hi := 0, nfs-1
		if nfs >= 4 {
			lo, hi = 2, nfs-2
		}
		for c := g.intRange(1, 2, "nsibchanges"); c > 0; c-- {
			j := g.intRange(lo, hi, "sibfield")
			old := sib.Fields[j].T
			nt := prims[g.intRange(0, len(prims)-1, "sibtype")]
			if old.K == KFixed || nt.Equal(old) {
				nt = IntT(64, false)
				if old.Equal(nt) {
					nt = IntT(8, true)
				}
			}
			sib.Fields[j] = Field{Name: sib.Fields[j].Name, T: nt}
		}
		g.p.Types = append(g.p.Types, sib)
		g.use("layout.sibling_struct")
	}
	val := 0
	var valueOf func(t *Type) Expr
	valueOf = func(t *Type) Expr {
		switch t.K {
		case KBool:
			val++
			return &Lit{T: TBool, B: val%2 == 0}
		case KInt:
			val++
			_, hi := t.Range()
			v := big.NewInt(int64(val*7 + 3))
			if v.Cmp(hi) > 0 {
				v.Mod(v, hi)
			}
			if t.Signed && val%3 == 0 {
				v.Neg(v)
			}
			return &Lit{T: t, I: v}
		case KStruct:
			sl := &StructLit{T: t}
			for _, f := range t.Fields {
				sl.Fields = append(sl.Fields, valueOf(f.T))
			}
			return sl
		case KFixed:
			al := &ArrLit{T: t}
			for i := 0; i < t.Len; i++ {
				al.Elems = append(al.Elems, valueOf(t.Elem))
			}
			return al
		}
		return nil
	}
	var leaves func(e Expr, t *Type) []Expr
	leaves = func(e Expr, t *Type) []Expr {
		switch t.K {
		case KStruct:
			var out []Expr
			for _, f := range t.Fields {
				out = append(out, leaves(&FieldX{T: f.T, X: e, Name: f.Name}, f.T)...)
			}
			return out
		case KFixed:
			var out []Expr
			for i := 0; i < t.Len; i++ {
				out = append(out, leaves(&Index{T: t.Elem, X: e, I: &Lit{T: i32, I: big.NewInt(int64(i))}}, t.Elem)...)
			}
			return out
		}
		return []Expr{e}
	}
	// helpers: by-value update and result-returning constructor for S0
	firstInt := -1
	for i, f := range s0.Fields {
		if f.T.K == KInt {
			firstInt = i
			break
		}
	}
	hasUpd := firstInt >= 0
	if hasUpd {
		ft := s0.Fields[firstInt].T
		fld := &FieldX{T: ft, X: &Var{T: s0, Name: "p"}, Name: s0.Fields[firstInt].Name}
		g.p.Funcs = append(g.p.Funcs, &Func{Name: "upd", Ret: s0, Params: []Param{{Name: "p", T: s0}, {Name: "d", T: ft}}, Body: []Stmt{
			&Assign{LHS: fld, Op: "=", RHS: &Var{T: ft, Name: "d"}}, &Return{X: &Var{T: s0, Name: "p"}}}})
	}

	type lvar struct {
		name string
		t    *Type
	}
	var vars []lvar
	var body []Stmt
	declare := func(name string, t *Type, init Expr) {
		body = append(body, &Let{Name: name, T: t, Init: init})
		vars = append(vars, lvar{name, t})
	}
	dump := func(tag string) {
		body = append(body, &Print{Args: []Expr{&Lit{T: TStr, S: tag}}})
		for _, v := range vars {
			ls := leaves(&Var{T: v.t, Name: v.name}, v.t)
			for i := 0; i < len(ls); i += 4 {
				body = append(body, &Print{Args: ls[i:min(i+4, len(ls))]})
			}
		}
	}
	// variables
	st := structs[len(structs)-1]
	na := g.intRange(2, 4, "narr")
	at := &Type{K: KFixed, Elem: st, Len: na}
	declare("c1", IntT(64, true), &Lit{T: IntT(64, true), I: big.NewInt(1111111111)})
	declare("arr", at, valueOf(at))
	declare("c2", IntT(64, true), &Lit{T: IntT(64, true), I: big.NewInt(2222222222)})
	declare("s", st, valueOf(st))
	sm := &Type{K: KFixed, Elem: prims[g.intRange(0, 3, "smallelem")], Len: g.intRange(3, 7, "smalllen")}
	declare("ab", sm, valueOf(sm))
	declare("c3", IntT(64, true), &Lit{T: IntT(64, true), I: big.NewInt(3333333333)})
	if len(structs) > 1 {
		a0 := &Type{K: KFixed, Elem: s0, Len: g.intRange(2, 3, "narr0")}
		declare("arr0", a0, valueOf(a0))
	}
	if sib != nil {
		declare("sb", sib, valueOf(sib))
		sa := &Type{K: KFixed, Elem: sib, Len: 2}
		declare("sbs", sa, valueOf(sa))
	}
	dump("init")
	nops := g.intRange(3, 8, "nops")
	// every step dumps every leaf: keep main at a size the back end compiles in a few seconds
	nleaves := 0
	for _, v := range vars {
		nleaves += len(leaves(&Var{T: v.t, Name: v.name}, v.t))
	}
	for nops > 2 && nleaves*(nops+1) > 500 {
		nops--
	}
	for k := 0; k < nops; k++ {
		tag := fmt.Sprintf("op%d", k)
		opk := g.intRange(0, 12, tag)
		if opk >= 10 && sib == nil {
			opk -= 7
		}
		switch opk {
		case 10: // leaf store in the sibling struct / an element of the sibling array
			var ls []Expr
			if g.chance(2, tag+"_sibarr") {
				ls = leaves(&Index{T: sib, X: &Var{T: &Type{K: KFixed, Elem: sib, Len: 2}, Name: "sbs"}, I: &Lit{T: i32, I: big.NewInt(int64(g.intRange(0, 1, tag+"_sibi")))}}, sib)
			} else {
				ls = leaves(&Var{T: sib, Name: "sb"}, sib)
			}
			l := ls[g.intRange(0, len(ls)-1, tag+"_leaf")]
			body = append(body, &Assign{LHS: l, Op: "=", RHS: valueOf(l.Type())})
			g.use("layout.sibling_leaf_store")
		case 11: // whole-value store of the sibling, or from the sibling array
			if g.chance(2, tag+"_sibfrom") {
				body = append(body, &Assign{LHS: &Var{T: sib, Name: "sb"}, Op: "=", RHS: &Index{T: sib, X: &Var{T: &Type{K: KFixed, Elem: sib, Len: 2}, Name: "sbs"}, I: &Lit{T: i32, I: big.NewInt(int64(g.intRange(0, 1, tag+"_sibi")))}}})
			} else {
				body = append(body, &Assign{LHS: &Index{T: sib, X: &Var{T: &Type{K: KFixed, Elem: sib, Len: 2}, Name: "sbs"}, I: &Lit{T: i32, I: big.NewInt(int64(g.intRange(0, 1, tag+"_sibi")))}}, Op: "=", RHS: valueOf(sib)})
			}
			g.use("layout.sibling_whole_store")
		case 12: // copy of the sibling, then modify the original
			n := g.fresh("sbc")
			declare(n, sib, &Var{T: sib, Name: "sb"})
			ls := leaves(&Var{T: sib, Name: "sb"}, sib)
			l := ls[g.intRange(0, len(ls)-1, tag+"_leaf")]
			body = append(body, &Assign{LHS: l, Op: "=", RHS: valueOf(l.Type())})
			g.use("layout.sibling_copy_then_store")
		case 0, 1: // element store of a whole struct
			i := g.intRange(0, na-1, tag+"_i")
			body = append(body, &Assign{LHS: &Index{T: st, X: &Var{T: at, Name: "arr"}, I: &Lit{T: i32, I: big.NewInt(int64(i))}}, Op: "=", RHS: valueOf(st)})
			g.use("layout.array_elem_store_struct")
		case 2: // element store from a variable
			i := g.intRange(0, na-1, tag+"_i")
			body = append(body, &Assign{LHS: &Index{T: st, X: &Var{T: at, Name: "arr"}, I: &Lit{T: i32, I: big.NewInt(int64(i))}}, Op: "=", RHS: &Var{T: st, Name: "s"}})
			g.use("layout.array_elem_store_var")
		case 3: // a leaf store inside an element
			i := g.intRange(0, na-1, tag+"_i")
			ls := leaves(&Index{T: st, X: &Var{T: at, Name: "arr"}, I: &Lit{T: i32, I: big.NewInt(int64(i))}}, st)
			l := ls[g.intRange(0, len(ls)-1, tag+"_leaf")]
			body = append(body, &Assign{LHS: l, Op: "=", RHS: valueOf(l.Type())})
			g.use("layout.leaf_store_in_elem")
		case 4: // a leaf or nested-struct store in the struct variable
			if len(structs) > 1 && g.chance(2, tag+"_nested") {
				for _, f := range st.Fields {
					if f.T == s0 {
						body = append(body, &Assign{LHS: &FieldX{T: s0, X: &Var{T: st, Name: "s"}, Name: f.Name}, Op: "=", RHS: valueOf(s0)})
						g.use("layout.nested_struct_store")
					}
				}
				break
			}
			ls := leaves(&Var{T: st, Name: "s"}, st)
			l := ls[g.intRange(0, len(ls)-1, tag+"_leaf")]
			body = append(body, &Assign{LHS: l, Op: "=", RHS: valueOf(l.Type())})
			g.use("layout.leaf_store")
		case 5: // small-integer array element store
			i := g.intRange(0, sm.Len-1, tag+"_i")
			body = append(body, &Assign{LHS: &Index{T: sm.Elem, X: &Var{T: sm, Name: "ab"}, I: &Lit{T: i32, I: big.NewInt(int64(i))}}, Op: "=", RHS: valueOf(sm.Elem)})
			g.use("layout.small_array_store")
		case 6: // whole copies
			n := g.fresh("cp")
			declare(n, at, &Var{T: at, Name: "arr"})
			g.use("layout.array_copy")
		case 7: // by-value update through a function
			if hasUpd && st == s0 {
				body = append(body, &Assign{LHS: &Var{T: s0, Name: "s"}, Op: "=", RHS: &Call{T: s0, Fn: "upd", Args: []Expr{&Var{T: s0, Name: "s"}, valueOf(s0.Fields[firstInt].T)}}})
				g.use("layout.by_value_update")
			} else if hasUpd && len(structs) > 1 {
				i := 0
				a0 := vars[len(vars)-1]
				for _, v := range vars {
					if v.name == "arr0" {
						a0 = v
					}
				}
				if a0.name == "arr0" {
					el := &Index{T: s0, X: &Var{T: a0.t, Name: "arr0"}, I: &Lit{T: i32, I: big.NewInt(int64(i))}}
					body = append(body, &Assign{LHS: el, Op: "=", RHS: &Call{T: s0, Fn: "upd", Args: []Expr{el, valueOf(s0.Fields[firstInt].T)}}})
					g.use("layout.by_value_update_elem")
				}
			}
		case 8: // (a struct travelling through a result type is not supported by the native back end: plain copy instead)
			n := g.fresh("rs")
			declare(n, s0, valueOf(s0))
			g.use("layout.fresh_struct")
		case 9: // struct copy into a fresh variable, then modify the original
			n := g.fresh("sc")
			declare(n, st, &Var{T: st, Name: "s"})
			ls := leaves(&Var{T: st, Name: "s"}, st)
			l := ls[g.intRange(0, len(ls)-1, tag+"_leaf")]
			body = append(body, &Assign{LHS: l, Op: "=", RHS: valueOf(l.Type())})
			g.use("layout.struct_copy_then_store")
		}
		dump(tag)
	}
	g.p.Funcs = append(g.p.Funcs, &Func{Name: "main", Body: append(body, &Print{Args: []Expr{&Lit{T: TStr, S: "end"}}})})
	return g.p
}
