package fer

import (
	"fmt"
	"strings"
)

func Src(e Expr) string {
	var b strings.Builder
	e.src(&b)
	return b.String()
}

func (e *Lit) src(b *strings.Builder) {
	switch e.T.K {
	case KInt:
		if e.I.Sign() < 0 {
			b.WriteString("(" + e.I.String() + ")")
		} else {
			b.WriteString(e.I.String())
		}
	case KBool:
		fmt.Fprintf(b, "%v", e.B)
	case KStr:
		b.WriteString("\"" + e.S + "\"")
	}
}
func (e *Var) src(b *strings.Builder) { b.WriteString(e.Name) }
func (e *Bin) src(b *strings.Builder) {
	b.WriteString("(")
	e.L.src(b)
	b.WriteString(" " + e.Op + " ")
	e.R.src(b)
	b.WriteString(")")
}
func (e *Un) src(b *strings.Builder) {
	b.WriteString("(" + e.Op)
	e.X.src(b)
	b.WriteString(")")
}
func (e *Cast) src(b *strings.Builder) {
	b.WriteString("(")
	e.X.src(b)
	b.WriteString(" as " + e.T.String() + ")")
}
func args(b *strings.Builder, as []Expr) {
	for i, a := range as {
		if i > 0 {
			b.WriteString(", ")
		}
		a.src(b)
	}
}
func (e *Call) src(b *strings.Builder) {
	b.WriteString(e.Fn + "(")
	args(b, e.Args)
	b.WriteString(")")
}
func (e *MethodCall) src(b *strings.Builder) {
	e.Recv.src(b)
	b.WriteString("." + e.Name + "(")
	args(b, e.Args)
	b.WriteString(")")
}
func (e *FieldX) src(b *strings.Builder) {
	e.X.src(b)
	b.WriteString("." + e.Name)
}
func (e *Index) src(b *strings.Builder) {
	e.X.src(b)
	b.WriteString("[")
	// index literals are written bare (negative literal indices count from the end)
	if l, ok := e.I.(*Lit); ok {
		b.WriteString(l.I.String())
	} else {
		e.I.src(b)
	}
	b.WriteString("]")
}
func (e *StructLit) src(b *strings.Builder) {
	b.WriteString("({")
	for i, f := range e.Fields {
		if i > 0 {
			b.WriteString(", ")
		}
		b.WriteString("." + e.T.Fields[i].Name + " = ")
		f.src(b)
	}
	b.WriteString("} as " + e.T.Name + ")")
}
func (e *ArrLit) src(b *strings.Builder) {
	b.WriteString("[")
	args(b, e.Elems)
	b.WriteString("]")
}
func (e *EnumVal) src(b *strings.Builder) { b.WriteString(e.T.Name + "::" + e.T.Variants[e.V]) }
func (e *LenX) src(b *strings.Builder) {
	b.WriteString("len(")
	e.X.src(b)
	b.WriteString(")")
}
func (e *Borrow) src(b *strings.Builder) {
	if e.T.Mut {
		b.WriteString("&'")
	} else {
		b.WriteString("&")
	}
	e.X.src(b)
}
func (e *Paren) src(b *strings.Builder) {
	b.WriteString("(")
	e.X.src(b)
	b.WriteString(")")
}
func (e *CatchCall) src(b *strings.Builder) {
	e.Call.src(b)
	b.WriteString(" catch ")
	if e.Handler != nil {
		b.WriteString(e.ErrVar + " {\n")
		for _, s := range e.Handler {
			s.stmt(b, 3)
		}
		b.WriteString("        } ")
	}
	e.Fallback.src(b)
}
func (e *FnLit) src(b *strings.Builder) {
	b.WriteString("fn(")
	for i, p := range e.Params {
		if i > 0 {
			b.WriteString(", ")
		}
		b.WriteString(p + ": " + e.T.Params[i].String())
	}
	b.WriteString(")")
	if e.T.Ret != nil && e.T.Ret.K != KVoid {
		b.WriteString(" -> " + e.T.Ret.String())
	}
	b.WriteString(" {\n")
	for _, s := range e.Body {
		s.stmt(b, 3)
	}
	b.WriteString("        }")
}

func indent(b *strings.Builder, n int) { b.WriteString(strings.Repeat("    ", n)) }

func block(b *strings.Builder, body []Stmt, ind int) {
	b.WriteString("{\n")
	for _, s := range body {
		s.stmt(b, ind+1)
	}
	indent(b, ind)
	b.WriteString("}")
}

func (s *Let) stmt(b *strings.Builder, ind int) {
	indent(b, ind)
	kw := "let"
	if s.Const {
		kw = "const"
	}
	if s.Infer {
		b.WriteString(kw + " " + s.Name + " := ")
	} else {
		b.WriteString(kw + " " + s.Name + ": " + s.T.String() + " = ")
	}
	// struct literals in a typed context are written without the cast
	if sl, ok := s.Init.(*StructLit); ok && !s.Infer {
		structLitBare(b, sl)
	} else {
		s.Init.src(b)
	}
	b.WriteString(";\n")
}
func structLitBare(b *strings.Builder, e *StructLit) {
	b.WriteString("{")
	for i, f := range e.Fields {
		if i > 0 {
			b.WriteString(", ")
		}
		b.WriteString("." + e.T.Fields[i].Name + " = ")
		if in, ok := f.(*StructLit); ok {
			structLitBare(b, in)
		} else {
			f.src(b)
		}
	}
	b.WriteString("}")
}
func (s *Assign) stmt(b *strings.Builder, ind int) {
	indent(b, ind)
	s.LHS.src(b)
	b.WriteString(" " + s.Op + " ")
	s.RHS.src(b)
	b.WriteString(";\n")
}
func (s *IncDec) stmt(b *strings.Builder, ind int) {
	indent(b, ind)
	s.LHS.src(b)
	b.WriteString(s.Op + ";\n")
}
func (s *If) stmt(b *strings.Builder, ind int) {
	indent(b, ind)
	s.chain(b, ind)
	b.WriteString("\n")
}
func (s *If) chain(b *strings.Builder, ind int) {
	b.WriteString("if ")
	s.Cond.src(b)
	b.WriteString(" ")
	block(b, s.Then, ind)
	if s.Else != nil {
		b.WriteString(" else ")
		if len(s.Else) == 1 {
			if ei, ok := s.Else[0].(*If); ok {
				ei.chain(b, ind)
				return
			}
		}
		block(b, s.Else, ind)
	}
}
func (s *While) stmt(b *strings.Builder, ind int) {
	indent(b, ind)
	b.WriteString("while ")
	s.Cond.src(b)
	b.WriteString(" ")
	block(b, s.Body, ind)
	b.WriteString("\n")
}
func (s *ForRange) stmt(b *strings.Builder, ind int) {
	indent(b, ind)
	b.WriteString("for " + s.Var + " in ")
	s.Lo.src(b)
	if s.Inclusive {
		b.WriteString("..=")
	} else {
		b.WriteString("..")
	}
	s.Hi.src(b)
	if s.Step != nil {
		b.WriteString(":")
		s.Step.src(b)
	}
	b.WriteString(" ")
	block(b, s.Body, ind)
	b.WriteString("\n")
}
func (s *ForIn) stmt(b *strings.Builder, ind int) {
	indent(b, ind)
	b.WriteString("for ")
	if s.Idx != "" {
		b.WriteString(s.Idx + ", ")
	}
	b.WriteString(s.Val + " in ")
	s.Arr.src(b)
	b.WriteString(" ")
	block(b, s.Body, ind)
	b.WriteString("\n")
}
func (s *Match) stmt(b *strings.Builder, ind int) {
	indent(b, ind)
	b.WriteString("match ")
	s.X.src(b)
	b.WriteString(" {\n")
	for _, a := range s.Arms {
		indent(b, ind+1)
		if l, ok := a.Pat.(*Lit); ok && l.T.K == KInt {
			b.WriteString(l.I.String())
		} else {
			a.Pat.src(b)
		}
		b.WriteString(" => ")
		block(b, a.Body, ind+1)
		b.WriteString("\n")
	}
	if s.HasDef {
		indent(b, ind+1)
		b.WriteString("_ => ")
		block(b, s.Default, ind+1)
		b.WriteString("\n")
	}
	indent(b, ind)
	b.WriteString("}\n")
}
func (s *Return) stmt(b *strings.Builder, ind int) {
	indent(b, ind)
	if s.X == nil {
		b.WriteString("return;\n")
		return
	}
	b.WriteString("return ")
	s.X.src(b)
	b.WriteString(";\n")
}
func (s *ReturnErr) stmt(b *strings.Builder, ind int) {
	indent(b, ind)
	b.WriteString("return ")
	s.X.src(b)
	b.WriteString("!;\n")
}
func (s *ExprStmt) stmt(b *strings.Builder, ind int) {
	indent(b, ind)
	s.X.src(b)
	b.WriteString(";\n")
}
func (s *Print) stmt(b *strings.Builder, ind int) {
	indent(b, ind)
	b.WriteString("io::Println(")
	args(b, s.Args)
	b.WriteString(");\n")
}
func (s *Break) stmt(b *strings.Builder, ind int)    { indent(b, ind); b.WriteString("break;\n") }
func (s *Continue) stmt(b *strings.Builder, ind int) { indent(b, ind); b.WriteString("continue;\n") }
func (s *Append) stmt(b *strings.Builder, ind int) {
	indent(b, ind)
	if s.NoBorrow {
		b.WriteString("append(")
	} else {
		b.WriteString("append(&'")
	}
	s.Arr.src(b)
	b.WriteString(", ")
	s.Val.src(b)
	b.WriteString(");\n")
}
func (s *Block) stmt(b *strings.Builder, ind int) {
	indent(b, ind)
	block(b, s.Body, ind)
	b.WriteString("\n")
}

func (f *Func) Source() string {
	var b strings.Builder
	b.WriteString("fn ")
	if f.Recv != nil {
		b.WriteString("(" + f.Recv.Name + ": " + f.Recv.T.String() + ") ")
	}
	b.WriteString(f.Name + "(")
	for i, p := range f.Params {
		if i > 0 {
			b.WriteString(", ")
		}
		b.WriteString(p.Name + ": " + p.T.String())
	}
	b.WriteString(")")
	if f.ErrT != nil {
		b.WriteString(" -> " + f.ErrT.String() + " ! " + f.Ret.String())
	} else if f.Ret != nil && f.Ret.K != KVoid {
		b.WriteString(" -> " + f.Ret.String())
	}
	b.WriteString(" ")
	block(&b, f.Body, 0)
	b.WriteString("\n")
	return b.String()
}

func TypeDecl(t *Type) string {
	switch t.K {
	case KStruct:
		var fs []string
		for _, f := range t.Fields {
			fs = append(fs, "."+f.Name+": "+f.T.String())
		}
		return "type " + t.Name + " struct { " + strings.Join(fs, ", ") + " };\n"
	case KEnum:
		return "type " + t.Name + " enum { " + strings.Join(t.Variants, ", ") + " };\n"
	}
	return ""
}

func (p *Program) Source() string {
	var b strings.Builder
	b.WriteString("import \"std/io\";\n\n")
	for _, t := range p.Types {
		b.WriteString(TypeDecl(t))
	}
	for _, gl := range p.Globals {
		gl.stmt(&b, 0)
	}
	b.WriteString("\n")
	for _, f := range p.Funcs {
		b.WriteString(f.Source())
		b.WriteString("\n")
	}
	return b.String()
}
