package fer

import (
	"fmt"
	"math/big"
	"strings"
)

// Deref marks the (implicit in source) use of a reference as its referent.
type Deref struct {
	T *Type
	X Expr
}

func (e *Deref) Type() *Type            { return e.T }
func (e *Deref) src(b *strings.Builder) { e.X.src(b) }

type StructV struct{ F []Val }
type FixedV struct{ E []Val }
type DynV struct{ E []Val }
type EnumV int
type RefV struct {
	Get func() Val
	Set func(Val)
}
type ClosV struct {
	Lit *FnLit
	Env *scope
}
type Val interface{}

type cell struct{ v Val }
type scope struct {
	vars   map[string]*cell
	parent *scope
}

func (s *scope) lookup(n string) *cell {
	for c := s; c != nil; c = c.parent {
		if v, ok := c.vars[n]; ok {
			return v
		}
	}
	return nil
}

type signal int

const (
	sigNone signal = iota
	sigBreak
	sigContinue
	sigReturn
	sigReturnErr
)

type panicExit struct{ msg string }
type interpErr struct{ msg string }

// Outcome of running a program in the reference semantics.
type Outcome struct {
	Lines []string
	Term  string // "ok" | "panic"
	Panic string
	Err   string // non-empty: the program left the defined semantics (div by zero, step limit, ...): discard
	// FellOff names the non-void function (or "function literal") whose body was left without a return
	FellOff string
	Steps   int
	// dynamic facts for non-triviality rules
	Calls, LoopIters, StructCopies, RefWrites, Wraps int
}

type Interp struct {
	prog  *Program
	funcs map[string]*Func
	out   *Outcome
	limit int
}

func Run(p *Program) (out *Outcome) {
	in := &Interp{prog: p, funcs: map[string]*Func{}, out: &Outcome{Term: "ok"}, limit: 200000}
	for _, f := range p.Funcs {
		key := f.Name
		if f.Recv != nil {
			key = recvBase(f.Recv.T).Name + "." + f.Name
		}
		in.funcs[key] = f
	}
	out = in.out
	defer func() {
		if r := recover(); r != nil {
			switch x := r.(type) {
			case panicExit:
				out.Term = "panic"
				out.Panic = x.msg
			case interpErr:
				out.Err = x.msg
			default:
				panic(r)
			}
		}
	}()
	m := in.funcs["main"]
	if m == nil {
		out.Err = "no main"
		return
	}
	in.call(m, nil, nil)
	return
}

func recvBase(t *Type) *Type {
	if t.K == KRef {
		return t.Elem
	}
	return t
}

func (in *Interp) fail(format string, a ...any) { panic(interpErr{fmt.Sprintf(format, a...)}) }

func (in *Interp) step() {
	in.out.Steps++
	if in.out.Steps > in.limit {
		in.fail("step limit")
	}
}

func copyVal(v Val) Val {
	switch x := v.(type) {
	case *StructV:
		n := &StructV{F: make([]Val, len(x.F))}
		for i, f := range x.F {
			n.F[i] = copyVal(f)
		}
		return n
	case *FixedV:
		n := &FixedV{E: make([]Val, len(x.E))}
		for i, f := range x.E {
			n.E[i] = copyVal(f)
		}
		return n
	case *big.Int:
		return new(big.Int).Set(x)
	}
	return v // bool, string, enum, dyn (reference), ref, closure
}

func (in *Interp) call(f *Func, recv Val, args []Val) (Val, bool) {
	in.out.Calls++
	sc := &scope{vars: map[string]*cell{}}
	if f.Recv != nil {
		sc.vars[f.Recv.Name] = &cell{recv}
	}
	for i, p := range f.Params {
		sc.vars[p.Name] = &cell{args[i]}
	}
	sig, v := in.execBlock(f.Body, sc)
	switch sig {
	case sigReturn:
		return v, false
	case sigReturnErr:
		return v, true
	case sigNone:
		if f.Ret != nil && f.Ret.K != KVoid {
			in.out.FellOff = f.Name
			in.fail("fell off the end of non-void function %s", f.Name)
		}
		return nil, false
	}
	in.fail("break/continue escaped function %s", f.Name)
	return nil, false
}

func (in *Interp) execBlock(body []Stmt, parent *scope) (signal, Val) {
	sc := &scope{vars: map[string]*cell{}, parent: parent}
	for _, s := range body {
		if sig, v := in.exec(s, sc); sig != sigNone {
			return sig, v
		}
	}
	return sigNone, nil
}

func (in *Interp) exec(s Stmt, sc *scope) (signal, Val) {
	in.step()
	switch st := s.(type) {
	case *Let:
		v := copyVal(in.eval(st.Init, sc))
		if isComposite(st.T) {
			in.out.StructCopies++
		}
		sc.vars[st.Name] = &cell{v}
	case *Assign:
		get, set := in.place(st.LHS, sc)
		if st.Op == "=" {
			set(copyVal(in.eval(st.RHS, sc)))
		} else {
			// left to right: `place op= rhs` reads the place, then evaluates rhs
			cur := new(big.Int).Set(get().(*big.Int))
			rhs := in.eval(st.RHS, sc)
			set(in.arith(st.LHS.Type(), st.Op[:1], cur, rhs.(*big.Int)))
		}
	case *IncDec:
		get, set := in.place(st.LHS, sc)
		op := "+"
		if st.Op == "--" {
			op = "-"
		}
		set(in.arith(st.LHS.Type(), op, get().(*big.Int), big.NewInt(1)))
	case *If:
		if in.eval(st.Cond, sc).(bool) {
			return in.execBlock(st.Then, sc)
		} else if st.Else != nil {
			return in.execBlock(st.Else, sc)
		}
	case *While:
		for in.eval(st.Cond, sc).(bool) {
			in.out.LoopIters++
			sig, v := in.execBlock(st.Body, sc)
			if sig == sigBreak {
				break
			}
			if sig == sigReturn || sig == sigReturnErr {
				return sig, v
			}
			in.step()
		}
	case *ForRange:
		lo := in.eval(st.Lo, sc).(*big.Int)
		hi := in.eval(st.Hi, sc).(*big.Int)
		step := big.NewInt(1)
		if st.Step != nil {
			step = in.eval(st.Step, sc).(*big.Int)
			if step.Sign() == 0 {
				in.fail("range step 0")
			}
		}
		for i := new(big.Int).Set(lo); ; i = new(big.Int).Add(i, step) {
			c := i.Cmp(hi) * step.Sign()
			if c > 0 || (c == 0 && !st.Inclusive) {
				break
			}
			in.out.LoopIters++
			inner := &scope{vars: map[string]*cell{st.Var: {new(big.Int).Set(i)}}, parent: sc}
			sig, v := in.execBlock(st.Body, inner)
			if sig == sigBreak {
				break
			}
			if sig == sigReturn || sig == sigReturnErr {
				return sig, v
			}
			in.step()
		}
	case *ForIn:
		arr := in.eval(st.Arr, sc)
		var elems []Val
		switch a := arr.(type) {
		case *DynV:
			elems = a.E
		case *FixedV:
			elems = a.E
		}
		n := len(elems)
		for i := 0; i < n; i++ {
			in.out.LoopIters++
			inner := &scope{vars: map[string]*cell{}, parent: sc}
			if st.Idx != "" && st.Idx != "_" {
				inner.vars[st.Idx] = &cell{big.NewInt(int64(i))}
			}
			if st.Val != "" && st.Val != "_" {
				inner.vars[st.Val] = &cell{copyVal(elems[i])}
			}
			sig, v := in.execBlock(st.Body, inner)
			if sig == sigBreak {
				break
			}
			if sig == sigReturn || sig == sigReturnErr {
				return sig, v
			}
			in.step()
		}
	case *Match:
		x := in.eval(st.X, sc)
		for _, a := range st.Arms {
			if valEq(x, in.eval(a.Pat, sc)) {
				return in.execBlock(a.Body, sc)
			}
		}
		if st.HasDef {
			return in.execBlock(st.Default, sc)
		}
	case *Return:
		if st.X == nil {
			return sigReturn, nil
		}
		return sigReturn, copyVal(in.eval(st.X, sc))
	case *ReturnErr:
		return sigReturnErr, copyVal(in.eval(st.X, sc))
	case *ExprStmt:
		in.eval(st.X, sc)
	case *Print:
		var parts []string
		for _, a := range st.Args {
			parts = append(parts, show(in.eval(a, sc), a.Type()))
		}
		in.out.Lines = append(in.out.Lines, strings.Join(parts, " "))
	case *Break:
		return sigBreak, nil
	case *Continue:
		return sigContinue, nil
	case *Append:
		av := in.eval(st.Arr, sc)
		if r, ok := av.(*RefV); ok {
			av = r.Get()
		}
		arr := av.(*DynV)
		arr.E = append(arr.E, copyVal(in.eval(st.Val, sc)))
	case *Block:
		return in.execBlock(st.Body, sc)
	default:
		in.fail("unknown stmt %T", s)
	}
	return sigNone, nil
}

func isComposite(t *Type) bool { return t != nil && (t.K == KStruct || t.K == KFixed) }

func valEq(a, b Val) bool {
	switch x := a.(type) {
	case *big.Int:
		return x.Cmp(b.(*big.Int)) == 0
	case bool:
		return x == b.(bool)
	case string:
		return x == b.(string)
	case EnumV:
		return x == b.(EnumV)
	}
	return false
}

func show(v Val, t *Type) string {
	switch x := v.(type) {
	case *big.Int:
		if t != nil && t.Byte {
			return string(rune(x.Int64()))
		}
		return x.String()
	case bool:
		if x {
			return "true"
		}
		return "false"
	case string:
		return x
	case *RefV:
		return show(x.Get(), t.Elem)
	}
	return fmt.Sprintf("<%T>", v)
}

func (in *Interp) arith(t *Type, op string, a, b *big.Int) *big.Int {
	r := new(big.Int)
	switch op {
	case "+":
		r.Add(a, b)
	case "-":
		r.Sub(a, b)
	case "*":
		r.Mul(a, b)
	case "/", "%":
		if b.Sign() == 0 {
			in.fail("division by zero")
		}
		lo, _ := t.Range()
		if t.Signed && a.Cmp(lo) == 0 && b.Cmp(big.NewInt(-1)) == 0 {
			in.fail("MIN / -1")
		}
		q, m := new(big.Int).QuoRem(a, b, new(big.Int))
		if op == "/" {
			r = q
		} else {
			r = m
		}
	}
	w := t.Wrap(r)
	if w.Cmp(r) != 0 {
		in.out.Wraps++
	}
	return w
}

// place returns accessors for an lvalue.
func (in *Interp) place(e Expr, sc *scope) (func() Val, func(Val)) {
	switch x := e.(type) {
	case *Var:
		c := sc.lookup(x.Name)
		if c == nil {
			in.fail("unbound %s", x.Name)
		}
		return func() Val { return c.v }, func(v Val) { c.v = v }
	case *Paren:
		return in.place(x.X, sc)
	case *Deref:
		r := in.eval(x.X, sc).(*RefV)
		return r.Get, func(v Val) { in.out.RefWrites++; r.Set(v) }
	case *FieldX:
		get, _ := in.place(x.X, sc)
		idx := fieldIndex(x.X.Type(), x.Name)
		base := func() *StructV {
			b := get()
			if r, ok := b.(*RefV); ok {
				b = r.Get()
			}
			return b.(*StructV)
		}
		return func() Val { return base().F[idx] }, func(v Val) {
			if _, isRef := get().(*RefV); isRef {
				in.out.RefWrites++
			}
			base().F[idx] = v
		}
	case *Index:
		get, _ := in.place(x.X, sc)
		iv := in.eval(x.I, sc).(*big.Int)
		at := func() ([]Val, int) {
			var elems []Val
			b := get()
			if r, ok := b.(*RefV); ok {
				b = r.Get()
			}
			switch a := b.(type) {
			case *FixedV:
				elems = a.E
			case *DynV:
				elems = a.E
			}
			i := int(iv.Int64())
			if i < 0 {
				i += len(elems)
			}
			if !iv.IsInt64() || i < 0 || i >= len(elems) {
				panic(panicExit{"index out of bounds"})
			}
			return elems, i
		}
		return func() Val { es, i := at(); return es[i] }, func(v Val) { es, i := at(); es[i] = v }
	}
	in.fail("not a place: %T", e)
	return nil, nil
}

func fieldIndex(t *Type, name string) int {
	if t.K == KRef {
		t = t.Elem
	}
	for i, f := range t.Fields {
		if f.Name == name {
			return i
		}
	}
	return -1
}

func (in *Interp) eval(e Expr, sc *scope) Val {
	in.step()
	switch x := e.(type) {
	case *Lit:
		switch x.T.K {
		case KInt:
			return new(big.Int).Set(x.I)
		case KBool:
			return x.B
		default:
			return x.S
		}
	case *Var:
		c := sc.lookup(x.Name)
		if c == nil {
			in.fail("unbound %s", x.Name)
		}
		return c.v
	case *Paren:
		return in.eval(x.X, sc)
	case *Deref:
		return in.eval(x.X, sc).(*RefV).Get()
	case *Bin:
		switch x.Op {
		case "&&":
			return in.eval(x.L, sc).(bool) && in.eval(x.R, sc).(bool)
		case "||":
			return in.eval(x.L, sc).(bool) || in.eval(x.R, sc).(bool)
		}
		l := in.eval(x.L, sc)
		r := in.eval(x.R, sc)
		switch x.Op {
		case "+", "-", "*", "/", "%":
			if x.T.K == KStr {
				return l.(string) + r.(string)
			}
			return in.arith(x.T, x.Op, l.(*big.Int), r.(*big.Int))
		case "==":
			return valEq(l, r)
		case "!=":
			return !valEq(l, r)
		case "<", "<=", ">", ">=":
			c := l.(*big.Int).Cmp(r.(*big.Int))
			return map[string]bool{"<": c < 0, "<=": c <= 0, ">": c > 0, ">=": c >= 0}[x.Op]
		}
	case *Un:
		v := in.eval(x.X, sc)
		if x.Op == "!" {
			return !v.(bool)
		}
		return in.arith(x.T, "-", big.NewInt(0), v.(*big.Int))
	case *Cast:
		v := in.eval(x.X, sc).(*big.Int)
		lo, hi := x.T.Range()
		if v.Cmp(lo) < 0 || v.Cmp(hi) > 0 {
			in.fail("cast out of range (unspecified)")
		}
		return new(big.Int).Set(v)
	case *Call:
		f := in.funcs[x.Fn]
		var args []Val
		if f == nil {
			// closure stored in a variable
			c := sc.lookup(x.Fn)
			if c == nil {
				in.fail("unknown function %s", x.Fn)
			}
			clos := c.v.(*ClosV)
			for _, a := range x.Args {
				args = append(args, copyVal(in.eval(a, sc)))
			}
			return in.callClosure(clos, args)
		}
		for _, a := range x.Args {
			args = append(args, copyVal(in.eval(a, sc)))
		}
		v, isErr := in.call(f, nil, args)
		if isErr {
			in.fail("unhandled error result")
		}
		return v
	case *MethodCall:
		base := recvBase(x.Recv.Type())
		f := in.funcs[base.Name+"."+x.Name]
		var recv Val
		if f.Recv.T.K == KRef {
			if x.Recv.Type().K == KRef {
				recv = in.eval(x.Recv, sc)
			} else {
				g, s := in.place(x.Recv, sc)
				recv = &RefV{Get: g, Set: s}
			}
		} else {
			v := in.eval(x.Recv, sc)
			if r, ok := v.(*RefV); ok {
				v = r.Get()
			}
			recv = copyVal(v)
			in.out.StructCopies++
		}
		var args []Val
		for _, a := range x.Args {
			args = append(args, copyVal(in.eval(a, sc)))
		}
		v, _ := in.call(f, recv, args)
		return v
	case *FieldX:
		v := in.eval(x.X, sc)
		if r, ok := v.(*RefV); ok {
			v = r.Get()
		}
		return v.(*StructV).F[fieldIndex(x.X.Type(), x.Name)]
	case *Index:
		v := in.eval(x.X, sc)
		if r, ok := v.(*RefV); ok {
			v = r.Get()
		}
		iv := in.eval(x.I, sc).(*big.Int)
		n := 0
		switch a := v.(type) {
		case *FixedV:
			n = len(a.E)
		case *DynV:
			n = len(a.E)
		case string:
			n = len(a)
		}
		i := int(iv.Int64())
		if i < 0 {
			i += n
		}
		if !iv.IsInt64() || i < 0 || i >= n {
			panic(panicExit{"index out of bounds"})
		}
		switch a := v.(type) {
		case *FixedV:
			return a.E[i]
		case *DynV:
			return a.E[i]
		case string:
			return big.NewInt(int64(a[i]))
		}
	case *StructLit:
		s := &StructV{}
		for _, f := range x.Fields {
			s.F = append(s.F, copyVal(in.eval(f, sc)))
		}
		return s
	case *ArrLit:
		var es []Val
		for _, el := range x.Elems {
			es = append(es, copyVal(in.eval(el, sc)))
		}
		if x.T.K == KDyn {
			return &DynV{E: es}
		}
		return &FixedV{E: es}
	case *EnumVal:
		return EnumV(x.V)
	case *LenX:
		v := in.eval(x.X, sc)
		if r, ok := v.(*RefV); ok {
			v = r.Get()
		}
		switch a := v.(type) {
		case *DynV:
			return big.NewInt(int64(len(a.E)))
		case *FixedV:
			return big.NewInt(int64(len(a.E)))
		case string:
			return big.NewInt(int64(len(a)))
		}
	case *Borrow:
		g, s := in.place(x.X, sc)
		return &RefV{Get: g, Set: s}
	case *FnLit:
		return &ClosV{Lit: x, Env: sc}
	case *CatchCall:
		f := in.funcs[x.Call.Fn]
		var args []Val
		for _, a := range x.Call.Args {
			args = append(args, copyVal(in.eval(a, sc)))
		}
		v, isErr := in.call(f, nil, args)
		if !isErr {
			return v
		}
		if x.Handler != nil {
			inner := &scope{vars: map[string]*cell{x.ErrVar: {v}}, parent: sc}
			if sig, _ := in.execBlock(x.Handler, inner); sig != sigNone {
				in.fail("control flow out of a catch handler is not modelled")
			}
		}
		return in.eval(x.Fallback, sc)
	}
	in.fail("unknown expr %T", e)
	return nil
}

func (in *Interp) callClosure(c *ClosV, args []Val) Val {
	in.out.Calls++
	sc := &scope{vars: map[string]*cell{}, parent: c.Env}
	for i, p := range c.Lit.Params {
		sc.vars[p] = &cell{args[i]}
	}
	sig, v := in.execBlock(c.Lit.Body, sc)
	if sig == sigReturn {
		return v
	}
	if sig != sigNone {
		in.fail("bad control flow in closure")
	}
	if c.Lit.T.Ret != nil && c.Lit.T.Ret.K != KVoid {
		in.out.FellOff = "function literal"
		in.fail("fell off the end of a non-void function literal")
	}
	return nil
}
