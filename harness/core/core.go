// Package core is the shared skeleton of every check: a property is a
// generator of JSON-serialisable cases plus an oracle evaluated on one case.
// The same oracle is used by the rapid campaign, by the replay tier and by the
// known-finding regression tier, so a saved case is re-decided without rapid.
package core

import (
	"bytes"
	"encoding/binary"
	"encoding/json"
	"fmt"
	"hash/fnv"
	"os"
	"path/filepath"
	"sort"
	"sync"

	"pgregory.net/rapid"
)

// Result is the oracle's verdict on one case.
type Result struct {
	Violation  string   // non-empty: the property is violated on this case (message)
	VKey       string   // short key identifying the failing shape (matched against known findings)
	NonTrivial bool     // by the property's stated rule
	Key        string   // distinctness key (defaults to the rendered case)
	Labels     []string // classification counters
	Discard    string   // non-empty: case is outside the property's domain (counted, not failed)
	Sample     string   // human-readable rendering for evidence samples
	Infra      string   // non-empty: infrastructure trouble (never a violation)
	// Sub, when non-empty, says that the case was a batch of independent
	// evaluations: each is counted as one evaluation with its own distinctness key.
	Sub []SubEval
}

type SubEval struct {
	Key        string
	NonTrivial bool
	Sample     string
}

// Prop describes one registered property check.
type Prop struct {
	ID    string
	Rule  string // how cases are generated, what is non-trivial/distinct
	Gen   func(t *rapid.T, env *Env) any
	New   func() any // fresh value to unmarshal a saved case into
	Check func(env *Env, c any) Result
	// Exhaustive, when set, enumerates a finite sub-space completely before the
	// rapid campaign; it returns the cases.
	Exhaustive  func(env *Env) []any
	Assumptions []string
	// NoConfirm: the check never uses the compile server (or is schedule dependent), so a
	// second CLI-only evaluation would add nothing (or lose a non-deterministic failure).
	NoConfirm bool
}

var registry = map[string]*Prop{}

func Register(p *Prop)       { registry[p.ID] = p }
func Lookup(id string) *Prop { return registry[id] }
func IDs() []string {
	var ids []string
	for k := range registry {
		ids = append(ids, k)
	}
	sort.Strings(ids)
	return ids
}

// Env carries per-process context: toolchain location, scratch, tier, known findings.
type Env struct {
	Toolchain string // dir with bin/ferret, libs/, cdrv/ ...
	Scratch   string // per-shard scratch dir
	Tier      string
	Shard     int
	Seed      int64
	Verif     string // /verif
	Repo      string
	Known     *Known
	Stats     *Stats
	NoServer  bool     // true: compile through the real CLI only (confirmation runs, replays)
	res       sync.Map // lazily created co-processes etc.
	seq       int64
	mu        sync.Mutex
}

func (e *Env) Thorough() bool { return e.Tier == "thorough" }

// NextDir returns a fresh directory for one case.
func (e *Env) NextDir() string {
	e.mu.Lock()
	e.seq++
	n := e.seq
	e.mu.Unlock()
	d := filepath.Join(e.Scratch, fmt.Sprintf("c%d", n%64))
	os.RemoveAll(d)
	os.MkdirAll(d, 0o755)
	return d
}

// Resource returns a lazily constructed per-process singleton.
func (e *Env) Resource(name string, mk func() (any, error)) (any, error) {
	if v, ok := e.res.Load(name); ok {
		return v, nil
	}
	e.mu.Lock()
	defer e.mu.Unlock()
	if v, ok := e.res.Load(name); ok {
		return v, nil
	}
	v, err := mk()
	if err != nil {
		return nil, err
	}
	e.res.Store(name, v)
	return v, nil
}

func (e *Env) DropResource(name string) { e.res.Delete(name) }

func EnvFromOS() *Env {
	e := &Env{
		Toolchain: os.Getenv("VERIF_TOOLCHAIN"),
		Scratch:   os.Getenv("VERIF_SCRATCH_DIR"),
		Tier:      os.Getenv("VERIF_TIER"),
		Verif:     os.Getenv("VERIF_DIR"),
		Repo:      os.Getenv("VERIF_REPO"),
	}
	if e.Tier == "" {
		e.Tier = "quick"
	}
	if e.Verif == "" {
		e.Verif = "/verif"
	}
	if e.Repo == "" {
		e.Repo = "/repo"
	}
	if e.Scratch == "" {
		d, _ := os.MkdirTemp("/dev/shm", "verif-shard-")
		e.Scratch = d
	}
	if os.Getenv("VERIF_SCRATCH_PERPID") == "1" {
		// several processes of one run share the variable (native fuzz workers)
		e.Scratch = filepath.Join(e.Scratch, fmt.Sprintf("p%d", os.Getpid()))
	}
	fmt.Sscan(os.Getenv("VERIF_SHARD"), &e.Shard)
	fmt.Sscan(os.Getenv("VERIF_SEED"), &e.Seed)
	e.Known = LoadKnown(filepath.Join(e.Verif, "known_findings.jsonl"))
	e.Stats = NewStats()
	return e
}

// ---------------------------------------------------------------- stats

type Stats struct {
	mu       sync.Mutex
	Evals    int64
	NT       map[uint64]struct{}
	NTCount  int64 // non-trivial evaluations (not distinct)
	Labels   map[string]int64
	Discards map[string]int64
	Excluded map[string]int64
	Samples  []string
	Infra    map[string]int64
	Extra    map[string]any
	nsample  int64
}

func NewStats() *Stats {
	return &Stats{NT: map[uint64]struct{}{}, Labels: map[string]int64{}, Discards: map[string]int64{},
		Excluded: map[string]int64{}, Infra: map[string]int64{}, Extra: map[string]any{}}
}

func Hash64(s string) uint64 {
	h := fnv.New64a()
	h.Write([]byte(s))
	return h.Sum64()
}

func (s *Stats) Record(r Result) {
	s.mu.Lock()
	defer s.mu.Unlock()
	if r.Infra != "" {
		s.Infra[r.Infra]++
		return
	}
	if r.Discard != "" {
		s.Discards[r.Discard]++
	}
	for _, l := range r.Labels {
		s.Labels[l]++
	}
	if len(r.Sub) > 0 {
		for _, e := range r.Sub {
			s.Evals++
			if e.NonTrivial {
				s.NTCount++
				s.NT[Hash64(e.Key)] = struct{}{}
				s.nsample++
				if e.Sample != "" && s.nsample&(s.nsample-1) == 0 && len(s.Samples) < 24 {
					s.Samples = append(s.Samples, e.Sample)
				}
			}
		}
		return
	}
	s.Evals++
	if r.NonTrivial && r.Discard == "" {
		s.NTCount++
		s.NT[Hash64(r.Key)] = struct{}{}
		s.nsample++
		// keep the 1st, 2nd, 4th, 8th ... non-trivial case as samples (bounded, spread)
		if r.Sample != "" && s.nsample&(s.nsample-1) == 0 && len(s.Samples) < 24 {
			s.Samples = append(s.Samples, r.Sample)
		}
	}
}

func (s *Stats) Exclude(key string) {
	s.mu.Lock()
	s.Excluded[key]++
	s.mu.Unlock()
}

func (s *Stats) Label(l string) {
	s.mu.Lock()
	s.Labels[l]++
	s.mu.Unlock()
}

type statsFile struct {
	Evals      int64            `json:"evals"`
	NTCount    int64            `json:"nt_count"`
	Labels     map[string]int64 `json:"labels"`
	Discards   map[string]int64 `json:"discards"`
	Excluded   map[string]int64 `json:"excluded"`
	Infra      map[string]int64 `json:"infra"`
	Samples    []string         `json:"samples"`
	Extra      map[string]any   `json:"extra"`
	Exhaustive bool             `json:"exhaustive"`
	Requested  int              `json:"requested"`
}

// Flush writes <path> (json) and <path>.h (8 bytes per distinct non-trivial hash).
func (s *Stats) Flush(path string, exhaustive bool, requested int) error {
	s.mu.Lock()
	defer s.mu.Unlock()
	f := statsFile{s.Evals, s.NTCount, s.Labels, s.Discards, s.Excluded, s.Infra, s.Samples, s.Extra, exhaustive, requested}
	b, _ := json.MarshalIndent(f, "", " ")
	if err := os.WriteFile(path, b, 0o644); err != nil {
		return err
	}
	hb := make([]byte, 0, 8*len(s.NT))
	for h := range s.NT {
		hb = binary.LittleEndian.AppendUint64(hb, h)
	}
	return os.WriteFile(path+".h", hb, 0o644)
}

// ---------------------------------------------------------------- known findings

type KnownEntry struct {
	Status   string   `json:"status"` // "known" | "fixed"
	Property string   `json:"property"`
	Key      string   `json:"key"` // VKey matched by violations; also the generator exclusion flag
	What     string   `json:"what"`
	Replay   string   `json:"replay"` // path relative to /verif
	Commit   string   `json:"commit,omitempty"`
	Exclude  []string `json:"exclude,omitempty"` // generator feature flags switched off by this finding
}

type Known struct {
	Entries []KnownEntry
	excl    map[string]string // feature flag -> key
	keys    map[string]bool   // property|key for status known
}

func LoadKnown(path string) *Known {
	k := &Known{excl: map[string]string{}, keys: map[string]bool{}}
	b, err := os.ReadFile(path)
	if err != nil {
		return k
	}
	dec := json.NewDecoder(bytes.NewReader(b))
	for dec.More() {
		var e KnownEntry
		if err := dec.Decode(&e); err != nil {
			break
		}
		k.Entries = append(k.Entries, e)
		if e.Status == "known" {
			k.keys[e.Property+"|"+e.Key] = true
			for _, x := range e.Exclude {
				k.excl[x] = e.Key
			}
		}
	}
	return k
}

// Off reports whether a generator feature is switched off by a known finding.
func (k *Known) Off(feature string) bool {
	if k == nil || k.excl == nil {
		return false
	}
	_, ok := k.excl[feature]
	return ok
}

// IsKnown reports whether a violation key of a property is a listed finding.
func (k *Known) IsKnown(prop, vkey string) bool {
	return k != nil && k.keys != nil && k.keys[prop+"|"+vkey]
}

// Use is the generator-side switch: returns true when the feature may be
// generated; counts an exclusion otherwise.
func (e *Env) Use(feature string) bool {
	if e.Known.Off(feature) {
		e.Stats.Exclude(feature)
		return false
	}
	return true
}

// ---------------------------------------------------------------- saved cases

type Saved struct {
	Property string          `json:"property"`
	Note     string          `json:"note,omitempty"`
	Expect   string          `json:"expect,omitempty"` // "pass" | "fail" (known finding still reproducing)
	VKey     string          `json:"vkey,omitempty"`
	Message  string          `json:"message,omitempty"`
	Case     json.RawMessage `json:"case"`
}

func SaveCase(dir, prop string, c any, r Result) error {
	os.MkdirAll(dir, 0o755)
	cb, err := json.MarshalIndent(c, "", " ")
	if err != nil {
		return err
	}
	s := Saved{Property: prop, VKey: r.VKey, Message: r.Violation, Case: cb}
	b, _ := json.MarshalIndent(s, "", " ")
	if err := os.WriteFile(filepath.Join(dir, "case.json"), b, 0o644); err != nil {
		return err
	}
	if f, ok := c.(interface{ Files() map[string]string }); ok {
		for name, text := range f.Files() {
			p := filepath.Join(dir, "files", name)
			os.MkdirAll(filepath.Dir(p), 0o755)
			os.WriteFile(p, []byte(text), 0o644)
		}
	}
	os.WriteFile(filepath.Join(dir, "observed.txt"), []byte(r.Violation+"\n"), 0o644)
	return nil
}

func LoadCase(dir string) (*Saved, error) {
	b, err := os.ReadFile(filepath.Join(dir, "case.json"))
	if err != nil {
		return nil, err
	}
	var s Saved
	if err := json.Unmarshal(b, &s); err != nil {
		return nil, err
	}
	return &s, nil
}
