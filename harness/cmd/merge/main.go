// merge combines per-shard stats into /verif/evidence/<id>.json.
package main

import (
	"encoding/binary"
	"encoding/json"
	"flag"
	"fmt"
	"os"
	"sort"
)

type statsFile struct {
	Evals      int64            `json:"evals"`
	NTCount    int64            `json:"nt_count"`
	Labels     map[string]int64 `json:"labels"`
	Discards   map[string]int64 `json:"discards"`
	Excluded   map[string]int64 `json:"excluded"`
	Infra      map[string]int64 `json:"infra"`
	Samples    []string         `json:"samples"`
	Extra      map[string]any   `json:"extra"`
	Exhaustive bool             `json:"exhaustive"`
	Requested  int              `json:"requested"`
}

func main() {
	id := flag.String("id", "", "")
	tier := flag.String("tier", "quick", "")
	seed := flag.Int64("seed", 1, "")
	viol := flag.Int("violations", 0, "")
	wall := flag.Float64("wall", 0, "")
	replays := flag.Int("replays", 0, "")
	out := flag.String("out", "", "")
	meta := flag.String("meta", "", "json file with rule/assumptions per property")
	flag.Parse()

	tot := statsFile{Labels: map[string]int64{}, Discards: map[string]int64{}, Excluded: map[string]int64{}, Infra: map[string]int64{}, Extra: map[string]any{}}
	distinct := map[uint64]struct{}{}
	allEx := true
	nfiles := 0
	shortfall := 0
	for _, f := range flag.Args() {
		b, err := os.ReadFile(f)
		if err != nil {
			fmt.Fprintln(os.Stderr, "merge: missing", f)
			os.Exit(1)
		}
		var s statsFile
		if err := json.Unmarshal(b, &s); err != nil {
			fmt.Fprintln(os.Stderr, "merge: bad", f, err)
			os.Exit(1)
		}
		nfiles++
		tot.Evals += s.Evals
		tot.NTCount += s.NTCount
		for k, v := range s.Labels {
			tot.Labels[k] += v
		}
		for k, v := range s.Discards {
			tot.Discards[k] += v
		}
		for k, v := range s.Excluded {
			tot.Excluded[k] += v
		}
		for k, v := range s.Infra {
			tot.Infra[k] += v
		}
		for k, v := range s.Extra {
			if fv, ok := v.(float64); ok {
				if old, ok2 := tot.Extra[k].(float64); ok2 {
					tot.Extra[k] = old + fv
				} else {
					tot.Extra[k] = fv
				}
			} else if _, ok := tot.Extra[k]; !ok {
				tot.Extra[k] = v
			}
		}
		if len(tot.Samples) < 12 {
			for i, sm := range s.Samples {
				if i < 2 || len(tot.Samples) < 4 {
					tot.Samples = append(tot.Samples, sm)
				}
			}
		}
		allEx = allEx && s.Exhaustive
		tot.Requested += s.Requested
		hb, _ := os.ReadFile(f + ".h")
		for i := 0; i+8 <= len(hb); i += 8 {
			distinct[binary.LittleEndian.Uint64(hb[i:])] = struct{}{}
		}
		_ = shortfall
	}
	var m struct {
		Rule        string   `json:"rule"`
		Assumptions []string `json:"assumptions"`
	}
	if *meta != "" {
		if b, err := os.ReadFile(*meta); err == nil {
			json.Unmarshal(b, &m)
		}
	}
	if r, ok := tot.Extra["rule"].(string); ok && m.Rule == "" {
		m.Rule = r
	}
	if a, ok := tot.Extra["assumptions"].([]any); ok && m.Assumptions == nil {
		for _, x := range a {
			m.Assumptions = append(m.Assumptions, fmt.Sprint(x))
		}
	}
	delete(tot.Extra, "rule")
	delete(tot.Extra, "assumptions")
	samples := make([]any, 0, len(tot.Samples))
	for _, s := range tot.Samples {
		var v any
		if json.Unmarshal([]byte(s), &v) == nil {
			samples = append(samples, v)
		} else {
			samples = append(samples, s)
		}
	}
	cov := map[string]any{
		"evaluations":               tot.Evals,
		"distinct_nontrivial":       len(distinct),
		"nontrivial_evaluations":    tot.NTCount,
		"rule":                      m.Rule,
		"samples":                   samples,
		"labels":                    sorted(tot.Labels),
		"discards":                  sorted(tot.Discards),
		"excluded_by_known_finding": sorted(tot.Excluded),
		"infra_events":              sorted(tot.Infra),
		"shards":                    nfiles,
		"saved_cases_replayed":      *replays,
	}
	if allEx && nfiles > 0 {
		cov["exhaustive"] = true
	}
	for k, v := range tot.Extra {
		cov[k] = v
	}
	ev := map[string]any{
		"property_id": *id,
		"tier":        *tier,
		"seed":        *seed,
		"level":       "exploration",
		"coverage":    cov,
		"assumptions": m.Assumptions,
		"wall_s":      *wall,
		"violations":  *viol,
	}
	b, _ := json.MarshalIndent(ev, "", " ")
	if err := os.WriteFile(*out, append(b, '\n'), 0o644); err != nil {
		fmt.Fprintln(os.Stderr, "merge:", err)
		os.Exit(1)
	}
	fmt.Fprintf(os.Stderr, "[verif] %s %s: evaluations=%d nontrivial=%d distinct_nontrivial=%d discards=%v excluded=%v infra=%v\n",
		*id, *tier, tot.Evals, tot.NTCount, len(distinct), tot.Discards, tot.Excluded, tot.Infra)
	// vacuity / infra floors: a run that explored (almost) nothing must not look green
	if tot.Evals == 0 || len(distinct) < 2 {
		fmt.Fprintln(os.Stderr, "[verif] vacuous run")
		os.Exit(1)
	}
	var infraN int64
	for _, v := range tot.Infra {
		infraN += v
	}
	if infraN*5 > tot.Evals {
		fmt.Fprintln(os.Stderr, "[verif] too many infrastructure events")
		os.Exit(1)
	}
}

func sorted(m map[string]int64) map[string]int64 {
	// encoding/json sorts map keys; keep as is (function kept for clarity)
	keys := make([]string, 0, len(m))
	for k := range m {
		keys = append(keys, k)
	}
	sort.Strings(keys)
	out := make(map[string]int64, len(m))
	for _, k := range keys {
		out[k] = m[k]
	}
	return out
}
