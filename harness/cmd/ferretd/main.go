// ferretd is a persistent compile server used only as an accelerator: process
// creation is the bottleneck in the sandbox (~45 spawns/s system-wide), so the
// harness calls compiler.Compile — the very function main.go calls — in a
// long-lived process.  Every violation found through it is re-confirmed with
// the real CLI before it is reported.
//
// Protocol: one JSON request per line on stdin, one JSON reply per line on the
// original stdout.  While a request runs, fd 1 and 2 are redirected to a capture
// file so that diagnostics printed by the compiler are collected verbatim.
package main

import (
	"bufio"
	"encoding/json"
	"fmt"
	"os"
	"path/filepath"
	"runtime"
	"runtime/debug"
	"strings"
	"syscall"

	"compiler/colors"
	"compiler/internal/compiler"
)

type req struct {
	Dir        string `json:"dir"`
	Entry      string `json:"entry"`
	Target     string `json:"target"`
	TypeOnly   bool   `json:"typeonly"`
	KeepGen    bool   `json:"keepgen"`
	Out        string `json:"out"`
	Capture    string `json:"capture"`
	GoMaxProcs int    `json:"gomaxprocs"`
	Sched      string `json:"sched"`
	Debug      bool   `json:"debug"`
}
type rep struct {
	Exit  int    `json:"exit"`
	Panic string `json:"panic,omitempty"`
}

func main() {
	proto, err := syscall.Dup(1)
	if err != nil {
		fmt.Fprintln(os.Stderr, "dup:", err)
		os.Exit(3)
	}
	out := os.NewFile(uintptr(proto), "proto")
	in := bufio.NewReaderSize(os.Stdin, 1<<20)
	baseProcs := runtime.GOMAXPROCS(0)
	for {
		line, err := in.ReadString('\n')
		if err != nil {
			return
		}
		var r req
		if json.Unmarshal([]byte(line), &r) != nil {
			fmt.Fprintln(out, `{"exit":-9,"panic":"bad request"}`)
			continue
		}
		f, err := os.Create(r.Capture)
		if err != nil {
			fmt.Fprintln(out, `{"exit":-9,"panic":"capture"}`)
			continue
		}
		syscall.Dup2(int(f.Fd()), 1)
		syscall.Dup2(int(f.Fd()), 2)
		if r.GoMaxProcs > 0 {
			runtime.GOMAXPROCS(r.GoMaxProcs)
		} else {
			runtime.GOMAXPROCS(baseProcs)
		}
		os.Setenv("FERRET_VERIF_SCHED", r.Sched)
		reply := run(&r)
		os.Stdout.Sync()
		f.Close()
		b, _ := json.Marshal(reply)
		fmt.Fprintln(out, string(b))
	}
}

func run(r *req) (reply rep) {
	defer func() {
		if p := recover(); p != nil {
			fmt.Fprintf(os.Stderr, "panic: %v\n\ngoroutine 1 [running]:\n%s\n", p, debug.Stack())
			reply = rep{Exit: 2, Panic: fmt.Sprint(p)}
		}
	}()
	os.Chdir(r.Dir)
	entry := r.Entry
	if entry == "" {
		entry = "main.fer"
	}
	backend := "qbe"
	switch strings.ToLower(strings.TrimSpace(r.Target)) {
	case "", "native":
	case "wasm":
		backend = "wasm"
	}
	if !filepath.IsAbs(entry) {
		entry = filepath.Join(r.Dir, entry)
	}
	res := compiler.Compile(&compiler.Options{
		EntryFile:        entry,
		Debug:            r.Debug,
		LogFormat:        compiler.ANSI,
		OutputExecutable: r.Out,
		KeepGenFiles:     r.KeepGen,
		SkipCodegen:      r.TypeOnly,
		CodegenBackend:   backend,
	})
	if !res.Success {
		colors.RED.Println(res.Output)
		return rep{Exit: 1}
	}
	return rep{Exit: 0}
}
