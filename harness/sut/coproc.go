package sut

import (
	"bufio"
	"bytes"
	"fmt"
	"io"
	"os"
	"os/exec"
	"strings"
	"sync"
)

// Coproc is a line-protocol co-process (one reply line per request line).
type Coproc struct {
	cmd    *exec.Cmd
	in     io.WriteCloser
	out    *bufio.Reader
	stderr *bytes.Buffer
	mu     sync.Mutex
	dead   bool
}

// StartCoprocArgs starts a co-process with arguments.
func StartCoprocArgs(path string, args []string, env ...string) (*Coproc, error) {
	return startCoproc(exec.Command(path, args...), env)
}

func StartCoproc(path string, env ...string) (*Coproc, error) {
	return startCoproc(exec.Command(path), env)
}

func startCoproc(cmd *exec.Cmd, env []string) (*Coproc, error) {
	cmd.Env = append(os.Environ(), env...)
	in, err := cmd.StdinPipe()
	if err != nil {
		return nil, err
	}
	out, err := cmd.StdoutPipe()
	if err != nil {
		return nil, err
	}
	c := &Coproc{cmd: cmd, in: in, out: bufio.NewReaderSize(out, 1<<20), stderr: &bytes.Buffer{}}
	cmd.Stderr = c.stderr
	if err := cmd.Start(); err != nil {
		return nil, err
	}
	return c, nil
}

// DeadError is returned when the co-process died (e.g. a sanitizer report).
type DeadError struct{ Stderr string }

func (e *DeadError) Error() string { return "co-process died: " + e.Stderr }

func (c *Coproc) Call(line string) (string, error) {
	c.mu.Lock()
	defer c.mu.Unlock()
	if c.dead {
		return "", &DeadError{c.stderr.String()}
	}
	if _, err := io.WriteString(c.in, line+"\n"); err != nil {
		return "", c.died()
	}
	reply, err := c.out.ReadString('\n')
	if err != nil {
		return "", c.died()
	}
	return strings.TrimRight(reply, "\n"), nil
}

// CallBatch sends all lines, then reads one reply per line.
func (c *Coproc) CallBatch(lines []string) ([]string, error) {
	c.mu.Lock()
	defer c.mu.Unlock()
	if c.dead {
		return nil, &DeadError{c.stderr.String()}
	}
	errc := make(chan error, 1)
	go func() {
		_, err := io.WriteString(c.in, strings.Join(lines, "\n")+"\n")
		errc <- err
	}()
	out := make([]string, 0, len(lines))
	for range lines {
		reply, err := c.out.ReadString('\n')
		if err != nil {
			return out, c.died()
		}
		out = append(out, strings.TrimRight(reply, "\n"))
	}
	if err := <-errc; err != nil {
		return out, c.died()
	}
	return out, nil
}

func (c *Coproc) died() error {
	c.dead = true
	c.in.Close()
	c.cmd.Wait()
	return &DeadError{c.stderr.String()}
}

func (c *Coproc) Dead() bool { return c.dead }

// Kill terminates the co-process without waiting for the protocol.
func (c *Coproc) Kill() {
	if c.cmd.Process != nil {
		c.cmd.Process.Kill()
	}
	c.dead = true
}

func (c *Coproc) Close() {
	c.mu.Lock()
	defer c.mu.Unlock()
	if !c.dead {
		c.in.Close()
		c.cmd.Wait()
		c.dead = true
	}
}

// SanitizerSummary extracts a short stable key from a sanitizer report.
func SanitizerSummary(stderr string) string {
	for _, ln := range strings.Split(stderr, "\n") {
		if i := strings.Index(ln, "ERROR: AddressSanitizer:"); i >= 0 {
			f := strings.Fields(ln[i+len("ERROR: AddressSanitizer:"):])
			if len(f) > 0 {
				return "asan:" + f[0]
			}
		}
		if strings.Contains(ln, "runtime error:") {
			parts := strings.SplitN(ln, "runtime error:", 2)
			return "ubsan:" + strings.TrimSpace(fmt.Sprint(strings.Fields(parts[1])[0:min(4, len(strings.Fields(parts[1])))]))
		}
	}
	if strings.TrimSpace(stderr) == "" {
		return "died-silently"
	}
	return "died"
}
