package sut

import (
	"encoding/json"
	"fmt"
	"path/filepath"
	"sync"
)

// WasmRunner drives js/runner.mjs (one long-lived node process per shard).
type WasmRunner struct {
	mu  sync.Mutex
	cp  *Coproc
	dir string
	n   int
}

type WasmResult struct {
	Status string   `json:"status"` // ok | trap | linkerror | timeout | error
	Msg    string   `json:"msg"`
	Lines  []string `json:"lines"`
}

func NewWasmRunner(tc Toolchain) *WasmRunner { return &WasmRunner{dir: tc.Dir} }

func (w *WasmRunner) Close() {
	w.mu.Lock()
	defer w.mu.Unlock()
	if w.cp != nil {
		w.cp.Close()
		w.cp = nil
	}
}

// Run executes a module.  A time-out (8 s) is confirmed by a second run with a 60 s limit
// before it is reported (a starved worker thread on a loaded machine is not a hang).
func (w *WasmRunner) Run(wasmPath string) (*WasmResult, error) {
	r, err := w.run(wasmPath, 8000)
	if err == nil && r.Status == "timeout" {
		r, err = w.run(wasmPath, 60000)
	}
	return r, err
}

func (w *WasmRunner) run(wasmPath string, timeoutMs int) (*WasmResult, error) {
	w.mu.Lock()
	defer w.mu.Unlock()
	if w.cp == nil || w.cp.Dead() {
		cp, err := StartCoprocArgs("node", []string{filepath.Join(w.dir, "runner.mjs")})
		if err != nil {
			return nil, err
		}
		w.cp = cp
	}
	w.n++
	req, _ := json.Marshal(map[string]any{"id": w.n, "wasm": wasmPath, "timeout_ms": timeoutMs})
	line, err := w.cp.Call(string(req))
	if err != nil {
		w.cp = nil
		return nil, fmt.Errorf("wasm runner died: %v", err)
	}
	var r WasmResult
	if err := json.Unmarshal([]byte(line), &r); err != nil {
		return nil, fmt.Errorf("bad runner reply %q", line)
	}
	return &r, nil
}
