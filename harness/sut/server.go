package sut

import (
	"encoding/json"
	"os"
	"path/filepath"
	"strings"
	"sync"
	"time"
)

// Server is a client of cmd/ferretd.
type Server struct {
	mu      sync.Mutex
	cp      *Coproc
	path    string
	libs    string
	Uses    int64
	Crashes int64
}

func NewServer(tc Toolchain) *Server {
	return &Server{path: filepath.Join(tc.Dir, "bin", "ferretd"), libs: tc.Libs()}
}

func (s *Server) start() error {
	cp, err := StartCoproc(s.path, "FERRET_LIBS_PATH="+s.libs, "GOMAXPROCS=2")
	if err != nil {
		return err
	}
	s.cp = cp
	return nil
}

func (s *Server) Close() {
	s.mu.Lock()
	defer s.mu.Unlock()
	if s.cp != nil {
		s.cp.Close()
		s.cp = nil
	}
}

// Compile returns nil when the server cannot be used (caller falls back to the CLI).
func (s *Server) Compile(tc Toolchain, dir string, o CompileOpts) *CompileResult {
	s.mu.Lock()
	defer s.mu.Unlock()
	if len(o.Env) > 0 {
		return nil
	}
	if s.cp == nil || s.cp.Dead() {
		if err := s.start(); err != nil {
			return nil
		}
	}
	capture := filepath.Join(dir, ".ferretd.out")
	req := map[string]any{"dir": dir, "entry": o.Entry, "target": o.Target, "typeonly": o.TypeOnly, "keepgen": o.KeepGen,
		"out": o.Out, "capture": capture, "gomaxprocs": o.GoMaxProcs, "sched": o.Sched, "debug": o.Debug}
	b, _ := json.Marshal(req)
	to := o.Timeout
	if to == 0 {
		to = defaultCompileTimeout()
	}
	type answer struct {
		line string
		err  error
	}
	ch := make(chan answer, 1)
	cp := s.cp
	t0 := time.Now()
	go func() {
		l, err := cp.Call(string(b))
		ch <- answer{l, err}
	}()
	r := &CompileResult{}
	select {
	case a := <-ch:
		r.Wall = time.Since(t0)
		s.Uses++
		outb, _ := os.ReadFile(capture)
		os.Remove(capture)
		r.Out = StripANSI(string(outb))
		if a.err != nil {
			// the server died: a crash in a goroutine of the compiler (or a hard fault)
			s.Crashes++
			if de, ok := a.err.(*DeadError); ok {
				r.Out += "\n" + StripANSI(de.Stderr)
			}
			r.Exit = 2
			r.Crash = CrashSite(r.Out)
			if r.Crash == "" {
				r.Crash = "server-died"
			}
			s.cp = nil
			r.Diags = ParseDiags(r.Out)
			return r
		}
		var rp struct {
			Exit  int    `json:"exit"`
			Panic string `json:"panic"`
		}
		json.Unmarshal([]byte(a.line), &rp)
		r.Exit = rp.Exit
		if rp.Panic != "" {
			r.Crash = CrashSite(r.Out)
			if r.Crash == "" {
				r.Crash = "panic:" + strings.SplitN(rp.Panic, "\n", 2)[0]
			}
		}
	case <-time.After(to):
		r.TimedOut = true
		r.Exit = -1
		cp.Kill()
		s.cp = nil
		outb, _ := os.ReadFile(capture)
		r.Out = StripANSI(string(outb))
	}
	r.Diags = ParseDiags(r.Out)
	return r
}
