// Package sut wraps the system under test at its real interface: the ferret
// CLI built from /repo into a scratch toolchain, the produced native
// executables, and .wasm modules run under node with the shipped runtime.js.
package sut

import (
	"bytes"
	"context"
	"errors"
	"fmt"
	"os"
	"os/exec"
	"path/filepath"
	"regexp"
	"strconv"
	"strings"
	"syscall"
	"time"
)

type Toolchain struct {
	Dir string // contains bin/ferret, bin/ferretd, libs/
	// Server, when non-nil, is a persistent compile server (accelerator); CLI spawns are used otherwise.
	Server *Server
	// InProc, when set, compiles inside the calling process (native fuzzing: coverage feedback
	// from the compiler packages); it returns nil when it cannot serve the request.
	InProc func(dir string, o CompileOpts) *CompileResult
}

func (tc Toolchain) Ferret() string { return filepath.Join(tc.Dir, "bin", "ferret") }
func (tc Toolchain) Libs() string   { return filepath.Join(tc.Dir, "libs") }

type Diag struct {
	Severity string // error | warning | info | hint
	Code     string
	Msg      string
	Path     string
	Line     int
	Col      int
	HasLoc   bool
}

type CompileResult struct {
	Exit     int // process exit code (-1 = killed/timeout)
	TimedOut bool
	Signal   string
	Out      string // stdout+stderr, ANSI stripped
	Diags    []Diag
	Crash    string // non-empty: internal crash; value = first stack frame inside the compiler (crash-site key)
	Wall     time.Duration
}

func (r *CompileResult) Errors() []Diag {
	var e []Diag
	for _, d := range r.Diags {
		if d.Severity == "error" {
			e = append(e, d)
		}
	}
	return e
}
func (r *CompileResult) OK() bool { return r.Exit == 0 && !r.TimedOut && r.Crash == "" }

var ansiRe = regexp.MustCompile(`\x1b\[[0-9;]*m`)

func StripANSI(s string) string { return ansiRe.ReplaceAllString(s, "") }

var (
	hdrRe = regexp.MustCompile(`^(error|warning|info|hint)(?:\[([A-Z0-9]+)\])?: (.*)$`)
	locRe = regexp.MustCompile(`^\s*--> (.*):(\d+):(\d+)\s*$`)
)

func ParseDiags(out string) []Diag {
	var ds []Diag
	lines := strings.Split(out, "\n")
	for i := 0; i < len(lines); i++ {
		m := hdrRe.FindStringSubmatch(strings.TrimRight(lines[i], " \r"))
		if m == nil {
			continue
		}
		d := Diag{Severity: m[1], Code: m[2], Msg: m[3]}
		// location line follows (possibly after wrapped message lines)
		for j := i + 1; j < len(lines) && j <= i+3; j++ {
			if lm := locRe.FindStringSubmatch(lines[j]); lm != nil {
				d.Path = lm[1]
				d.Line, _ = strconv.Atoi(lm[2])
				d.Col, _ = strconv.Atoi(lm[3])
				d.HasLoc = true
				break
			}
			if hdrRe.MatchString(lines[j]) {
				break
			}
		}
		ds = append(ds, d)
	}
	return ds
}

// CrashSite extracts the first compiler frame of a Go panic trace.
func CrashSite(out string) string {
	if !strings.Contains(out, "goroutine ") && !strings.Contains(out, "panic:") && !strings.Contains(out, "fatal error:") {
		return ""
	}
	if !strings.Contains(out, "goroutine ") {
		return ""
	}
	lines := strings.Split(out, "\n")
	first := ""
	for _, ln := range lines {
		ln = strings.TrimSpace(ln)
		if !(strings.HasPrefix(ln, "compiler/") || strings.HasPrefix(ln, "main.")) {
			continue
		}
		i := strings.LastIndex(ln, "(")
		if i <= 0 {
			continue
		}
		f := ln[:i]
		if strings.ContainsAny(f, " \t") {
			continue
		}
		f = strings.TrimPrefix(f, "compiler/internal/")
		if first == "" {
			first = f
		}
		// the first frame outside the diagnostics package identifies the faulty caller
		if !strings.HasPrefix(f, "diagnostics.") {
			if first != f {
				return first + "<-" + f
			}
			return f
		}
	}
	if first != "" {
		return first
	}
	return "unknown-frame"
}

type CompileOpts struct {
	Target     string // "" | native | wasm
	TypeOnly   bool
	KeepGen    bool
	Out        string // -o
	Env        []string
	Timeout    time.Duration
	Entry      string // default main.fer
	ExtraArgs  []string
	ForceCLI   bool
	Debug      bool   // -d
	GoMaxProcs int    // 0 = default
	Sched      string // FERRET_VERIF_SCHED value
}

// Compile compiles the project in dir: through the persistent server when one is
// attached (and the options allow it), otherwise by running the real CLI.
func (tc Toolchain) Compile(dir string, o CompileOpts) *CompileResult {
	if tc.InProc != nil && len(o.ExtraArgs) == 0 && !o.ForceCLI && len(o.Env) == 0 {
		if r := tc.InProc(dir, o); r != nil {
			return r
		}
	}
	if tc.Server != nil && len(o.ExtraArgs) == 0 && !o.ForceCLI {
		if r := tc.Server.Compile(tc, dir, o); r != nil {
			return r
		}
	}
	return tc.CompileCLI(dir, o)
}

// CompileCLI runs the real CLI in dir.
func (tc Toolchain) CompileCLI(dir string, o CompileOpts) *CompileResult {
	args := []string{}
	if o.TypeOnly {
		args = append(args, "-t")
	}
	if o.Debug {
		args = append(args, "-d")
	}
	if o.Target != "" && o.Target != "native" {
		args = append(args, "-target", o.Target)
	}
	if o.KeepGen {
		args = append(args, "-keep-gen")
	}
	if o.Out != "" {
		args = append(args, "-o", o.Out)
	}
	args = append(args, o.ExtraArgs...)
	entry := o.Entry
	if entry == "" {
		entry = "main.fer"
	}
	args = append(args, entry)
	to := o.Timeout
	if to == 0 {
		to = defaultCompileTimeout()
	}
	ctx, cancel := context.WithTimeout(context.Background(), to)
	defer cancel()
	cmd := exec.CommandContext(ctx, tc.Ferret(), args...)
	cmd.Dir = dir
	// GOMAXPROCS=2 by default: many shards run compilers concurrently and a 16-thread Go
	// runtime per short-lived compiler process only adds scheduling overhead (C14/C15 override it).
	gmp := 2
	if o.GoMaxProcs > 0 {
		gmp = o.GoMaxProcs
	}
	cmd.Env = append(os.Environ(), "FERRET_LIBS_PATH="+tc.Libs(), fmt.Sprintf("GOMAXPROCS=%d", gmp), "FERRET_VERIF_SCHED="+o.Sched)
	cmd.Env = append(cmd.Env, o.Env...)
	var buf bytes.Buffer
	cmd.Stdout = &buf
	cmd.Stderr = &buf
	cmd.WaitDelay = 2 * time.Second
	t0 := time.Now()
	err := cmd.Run()
	r := &CompileResult{Wall: time.Since(t0)}
	r.Out = StripANSI(buf.String())
	if ctx.Err() == context.DeadlineExceeded {
		r.TimedOut = true
		r.Exit = -1
	} else if err != nil {
		var ee *exec.ExitError
		if errors.As(err, &ee) {
			r.Exit = ee.ExitCode()
			if ws, ok := ee.Sys().(syscall.WaitStatus); ok && ws.Signaled() {
				r.Signal = ws.Signal().String()
				r.Exit = -1
			}
		} else {
			r.Exit = -2
			r.Out += "\n[harness] exec error: " + err.Error()
		}
	}
	r.Diags = ParseDiags(r.Out)
	if r.Exit != 0 && r.Exit != 1 || r.Signal != "" {
		r.Crash = CrashSite(r.Out)
		if r.Crash == "" && r.Signal != "" {
			r.Crash = "signal:" + r.Signal
		}
	} else if strings.Contains(r.Out, "goroutine ") && strings.Contains(r.Out, "panic") {
		r.Crash = CrashSite(r.Out)
	}
	return r
}

type RunResult struct {
	Stdout   string
	Stderr   string
	Exit     int
	Signal   string
	TimedOut bool
}

// Term classifies termination: "ok" | "panic" | "signal:<name>" | "exit:<n>" | "timeout".
func (r *RunResult) Term() string {
	switch {
	case r.TimedOut:
		return "timeout"
	case r.Signal != "":
		if r.Signal == "aborted" {
			return "panic"
		}
		return "signal:" + r.Signal
	case r.Exit == 0:
		return "ok"
	default:
		if strings.Contains(r.Stderr, "panic") || strings.Contains(r.Stdout, "panic") {
			return "panic"
		}
		return fmt.Sprintf("exit:%d", r.Exit)
	}
}

// RunNative runs an executable.  With the default limit a time-out is confirmed by a second
// run with a six times longer limit before it is reported: on a loaded machine a process can
// be starved for seconds, and a time-out must never be a verdict about the program.
func RunNative(exe string, timeout time.Duration) *RunResult {
	if timeout == 0 {
		r := runNativeOnce(exe, 10*time.Second)
		if r.TimedOut {
			r = runNativeOnce(exe, 60*time.Second)
		}
		return r
	}
	return runNativeOnce(exe, timeout)
}

func runNativeOnce(exe string, timeout time.Duration) *RunResult {
	ctx, cancel := context.WithTimeout(context.Background(), timeout)
	defer cancel()
	cmd := exec.CommandContext(ctx, exe)
	cmd.Dir = filepath.Dir(exe)
	var so, se bytes.Buffer
	cmd.Stdout = &so
	cmd.Stderr = &se
	cmd.WaitDelay = time.Second
	err := cmd.Run()
	r := &RunResult{Stdout: so.String(), Stderr: se.String()}
	if ctx.Err() == context.DeadlineExceeded {
		r.TimedOut = true
		return r
	}
	if err != nil {
		var ee *exec.ExitError
		if errors.As(err, &ee) {
			r.Exit = ee.ExitCode()
			if ws, ok := ee.Sys().(syscall.WaitStatus); ok && ws.Signaled() {
				r.Signal = ws.Signal().String()
			}
		} else {
			r.Exit = -2
			r.Stderr += "\n[harness] exec error: " + err.Error()
		}
	}
	return r
}

// WriteProject writes files (relative name -> text) into dir.
func WriteProject(dir string, files map[string]string) error {
	for name, text := range files {
		p := filepath.Join(dir, name)
		if err := os.MkdirAll(filepath.Dir(p), 0o755); err != nil {
			return err
		}
		if err := os.WriteFile(p, []byte(text), 0o644); err != nil {
			return err
		}
	}
	return nil
}

func defaultCompileTimeout() time.Duration {
	if v := os.Getenv("VERIF_COMPILE_TIMEOUT"); v != "" {
		if d, err := time.ParseDuration(v); err == nil {
			return d
		}
	}
	return 30 * time.Second
}
