package props

// C13 — the compiler is total and reports failure faithfully.
// Inputs: arbitrary bytes, token soup, damaged valid programs (the repo's own
// .fer files), multi-file projects with missing / self / cyclic / malformed
// imports; x target in {type-check only, wasm, native}.
// Oracle: no internal crash, no hang, exit 0 <=> no error diagnostic printed,
// failure => >= 1 error diagnostic located inside an input file, no artifact
// after a failure, artifact present after success.

import (
	"fmt"
	"os"
	"path/filepath"
	"regexp"
	"sort"
	"strings"
	"sync"
	"time"
	"unicode/utf8"

	"compiler/verifharness/core"
	"compiler/verifharness/sut"

	"pgregory.net/rapid"
)

type c13Case struct {
	Src    map[string][]byte `json:"files"`  // relative to the project dir "proj"; entry is main.fer
	Target string            `json:"target"` // check | wasm | native
	Kind   string            `json:"kind"`
}

func (c *c13Case) FilesText() map[string]string {
	m := map[string]string{}
	for k, v := range c.Src {
		m["proj/"+k] = string(v)
	}
	return m
}
func (c *c13Case) Files() map[string]string { return c.FilesText() }

var (
	c13CorpusOnce sync.Once
	c13Corpus     []string
)

var c13Builtin = []string{
	"import \"std/io\";\n\nfn main() {\n    let x: i32 = 1;\n    io::Println(x);\n}\n",
	"import \"std/io\";\ntype P struct { .X: i32, .Y: i64 };\nfn (p: &P) sum() -> i64 { return p.Y; }\nfn main() {\n    let p: P = {.X = 1, .Y = 2};\n    let a := [1, 2, 3];\n    for i, v in a { io::Println(i, v); }\n    match p.X { 1 => { io::Println(\"one\"); } _ => { io::Println(\"other\"); } }\n    io::Println(p.sum());\n}\n",
	"import \"std/io\";\nfn div(a: i32, b: i32) -> str ! i32 {\n    if b == 0 { return \"div by zero\"!; }\n    return a / b;\n}\nfn main() {\n    let r := div(4, 2) catch e { io::Println(e); } 0;\n    let f := fn(y: i32) -> i32 { return y + r; };\n    while r < 3 { r = r + 1; }\n    io::Println(f(1));\n}\n",
	"import \"std/io\";\ntype Color enum { Red, Green, Blue };\nfn main() {\n    let c: Color = Color::Green;\n    let m: &'Color = &'c;\n    let o: i32? = none;\n    io::Println(o ?? 4);\n}\n",
}

func c13LoadCorpus(repo string) []string {
	c13CorpusOnce.Do(func() {
		var paths []string
		filepath.Walk(repo, func(p string, info os.FileInfo, err error) error {
			if err != nil {
				return nil
			}
			if info.IsDir() && (info.Name() == ".git" || info.Name() == "node_modules") {
				return filepath.SkipDir
			}
			if !info.IsDir() && strings.HasSuffix(p, ".fer") && info.Size() > 0 && info.Size() <= 6*1024 {
				paths = append(paths, p)
			}
			return nil
		})
		sort.Strings(paths)
		c13Corpus = append(c13Corpus, c13Builtin...)
		for _, p := range paths {
			if b, err := os.ReadFile(p); err == nil && utf8.Valid(b) {
				c13Corpus = append(c13Corpus, string(b))
			}
		}
	})
	return c13Corpus
}

var c13TokRe = regexp.MustCompile(`"(?:[^"\\\n]|\\.)*"|'(?:[^'\\\n]|\\.)*'|//[^\n]*|/\*[\s\S]*?\*/|[A-Za-z_][A-Za-z0-9_]*|0[xXoObB][0-9A-Fa-f_]+|[0-9][0-9_]*(?:\.[0-9_]+)?(?:[eE][+-]?[0-9]+)?|::|->|=>|==|!=|<=|>=|&&|\|\||\+\+|--|\+=|-=|\*=|/=|%=|\?\?|\.\.=|\.\.|&'|\S`)

// c13Tokens splits text into tokens and the gaps between them (gaps[i] precedes tokens[i]; one trailing gap).
func c13Tokens(text string) (toks []string, gaps []string) {
	idx := c13TokRe.FindAllStringIndex(text, -1)
	prev := 0
	for _, ix := range idx {
		gaps = append(gaps, text[prev:ix[0]])
		toks = append(toks, text[ix[0]:ix[1]])
		prev = ix[1]
	}
	gaps = append(gaps, text[prev:])
	return
}
func c13Join(toks, gaps []string) string {
	var b strings.Builder
	for i, t := range toks {
		if i < len(gaps) {
			b.WriteString(gaps[i])
		} else {
			b.WriteString(" ")
		}
		b.WriteString(t)
	}
	if len(gaps) > len(toks) {
		b.WriteString(gaps[len(gaps)-1])
	}
	return b.String()
}

var c13Alphabet = []string{"fn", "let", "const", "type", "struct", "enum", "interface", "if", "else", "while", "for", "in", "match", "return", "break", "continue", "import", "as", "catch", "is", "none", "true", "false",
	"map", "union", "priv", "mod", "do", "i8", "i32", "u64", "i128", "f64", "str", "bool", "byte", "main", "x", "y", "Foo", "io", "Println", "0", "1", "255", "0xFF", "1.5", "1e9", "\"s\"", "'c'", "\"std/io\"",
	"(", ")", "{", "}", "[", "]", ";", ",", ".", ":", "::", "->", "=>", "=", ":=", "==", "!=", "<", ">", "<=", ">=", "+", "-", "*", "/", "%", "!", "&", "&'", "&&", "||", "?", "??", "..", "..=", "++", "--", "+=", "_", "@", "#", "$", "`", "\\", "\n", "\t", "/*", "*/", "//"}

var c13TypeNames = map[string]bool{"i8": true, "i16": true, "i32": true, "i64": true, "i128": true, "i256": true, "u8": true, "u16": true, "u32": true, "u64": true, "u128": true, "u256": true,
	"f32": true, "f64": true, "f128": true, "f256": true, "str": true, "bool": true, "byte": true, "void": true}
var c13Keywords = map[string]bool{"fn": true, "let": true, "const": true, "type": true, "struct": true, "enum": true, "interface": true, "if": true, "else": true, "while": true, "for": true, "in": true,
	"match": true, "return": true, "break": true, "continue": true, "import": true, "as": true, "catch": true, "is": true, "none": true, "true": true, "false": true, "map": true, "union": true}
var c13ClassExtra = map[string][]string{
	"type":  {"i8", "u8", "i64", "u64", "i128", "f32", "f64", "str", "bool", "byte", "void"},
	"num":   {"0", "1", "-1", "255", "256", "2147483648", "18446744073709551616", "1.5", "0x7f", "1e400"},
	"binop": {"+", "-", "*", "/", "%", "==", "!=", "<", ">", "<=", ">=", "&&", "||", "??", "..", "..=", "is", "as"},
	"asgop": {"=", "+=", "-=", "*=", "/=", "%=", ":="},
	"str":   {"\"\"", "\"x\"", "\"std/io\""},
	"ident": {"main", "io", "Println", "len", "append", "_", "self", "none"},
	"bool":  {"true", "false", "none"},
}

func c13Class(tok string) string {
	switch {
	case c13TypeNames[tok]:
		return "type"
	case tok == "true" || tok == "false":
		return "bool"
	case c13Keywords[tok]:
		return ""
	case tok[0] >= '0' && tok[0] <= '9':
		return "num"
	case tok[0] == '"':
		return "str"
	case tok[0] == '_' || tok[0] >= 'a' && tok[0] <= 'z' || tok[0] >= 'A' && tok[0] <= 'Z':
		return "ident"
	}
	switch tok {
	case "+", "-", "*", "/", "%", "==", "!=", "<", ">", "<=", ">=", "&&", "||", "??", "..", "..=":
		return "binop"
	case "=", "+=", "-=", "*=", "/=", "%=", ":=":
		return "asgop"
	}
	return ""
}

func c13Mutate(t *rapid.T, text string) string {
	toks, gaps := c13Tokens(text)
	nm := rapid.IntRange(1, 4).Draw(t, "nmut")
	for m := 0; m < nm && len(toks) > 0; m++ {
		i := rapid.IntRange(0, len(toks)-1).Draw(t, "at")
		switch rapid.IntRange(0, 15).Draw(t, "mut") {
		case 10, 11, 12, 13, 14, 15: // class-preserving substitution: stays parseable, becomes semantically odd
			cls := c13Class(toks[i])
			if cls == "" {
				continue
			}
			var same []string
			for _, x := range toks {
				if c13Class(x) == cls && x != toks[i] {
					same = append(same, x)
				}
			}
			same = append(same, c13ClassExtra[cls]...)
			if len(same) > 0 {
				toks[i] = rapid.SampledFrom(same).Draw(t, "subst")
			}
		case 0: // truncate at token
			toks = toks[:i]
			gaps = gaps[:i+1]
		case 1: // delete token
			toks = append(toks[:i:i], toks[i+1:]...)
			gaps = append(gaps[:i:i], gaps[i+1:]...)
		case 2: // duplicate token
			toks = append(toks[:i+1:i+1], toks[i:]...)
			gaps = append(gaps[:i+1:i+1], append([]string{" "}, gaps[i+1:]...)...)
		case 3: // swap with neighbour
			if i+1 < len(toks) {
				toks[i], toks[i+1] = toks[i+1], toks[i]
			}
		case 4: // replace by a token from the alphabet
			toks[i] = rapid.SampledFrom(c13Alphabet).Draw(t, "tok")
		case 5: // bracket flipping
			flip := map[string]string{"(": ")", ")": "(", "{": "}", "}": "{", "[": "]", "]": "[", ";": ",", ",": ";"}
			for j := i; j < len(toks); j++ {
				if f, ok := flip[toks[j]]; ok {
					toks[j] = f
					break
				}
			}
		case 6: // window shuffle (reverse a window)
			w := rapid.IntRange(2, 6).Draw(t, "w")
			for a, b := i, min(i+w, len(toks))-1; a < b; a, b = a+1, b-1 {
				toks[a], toks[b] = toks[b], toks[a]
			}
		case 7: // insert a token
			tok := rapid.SampledFrom(c13Alphabet).Draw(t, "tok")
			toks = append(toks[:i:i], append([]string{tok}, toks[i:]...)...)
			gaps = append(gaps[:i:i], append([]string{" "}, gaps[i:]...)...)
		case 8: // byte-level truncation of the rendered text
			s := c13Join(toks, gaps)
			cut := rapid.IntRange(0, len(s)).Draw(t, "cut")
			return s[:cut]
		case 9: // glue tokens (remove the gap)
			if i < len(gaps) {
				gaps[i] = ""
			}
		}
	}
	return c13Join(toks, gaps)
}

// c13Relayout changes only the layout of a program: indentation by tabs and/or
// line breaks after '(' ',' '{' '=' — so that diagnostics (and their multi-line
// source snippets) are exercised on tab-indented and broken-up source text.
func c13Relayout(t *rapid.T, text string) string {
	mode := rapid.IntRange(0, 3).Draw(t, "layout")
	if mode == 0 {
		return text
	}
	toks, gaps := c13Tokens(text)
	tabs := mode != 2
	indent := func(n int) string {
		if tabs {
			return strings.Repeat("\t", n)
		}
		return strings.Repeat("    ", n)
	}
	if mode >= 2 {
		pb := rapid.IntRange(1, 3).Draw(t, "pbreak")
		for i := 0; i+1 < len(toks); i++ {
			switch toks[i] {
			case "(", ",", "{", "=", ":=":
				if !strings.Contains(gaps[i+1], "\n") && rapid.IntRange(0, 3).Draw(t, "brk") < pb {
					gaps[i+1] = "\n" + indent(rapid.IntRange(0, 3).Draw(t, "lvl"))
				}
			}
		}
	}
	if tabs {
		for i, g := range gaps {
			if j := strings.LastIndex(g, "\n"); j >= 0 {
				lead := g[j+1:]
				n := strings.Count(lead, "    ")
				if n > 0 && strings.Trim(lead, " ") == "" {
					gaps[i] = g[:j+1] + strings.Repeat("\t", n)
				}
			}
		}
	}
	return c13Join(toks, gaps)
}

func c13Gen(t *rapid.T, env *core.Env) any {
	corpus := c13LoadCorpus(env.Repo)
	c := &c13Case{Src: map[string][]byte{}}
	c.Target = rapid.SampledFrom([]string{"check", "check", "check", "wasm", "wasm", "native"}).Draw(t, "target")
	switch rapid.IntRange(0, 9).Draw(t, "kind") {
	case 0:
		c.Kind = "bytes"
		var b []byte
		if rapid.Bool().Draw(t, "raw") {
			b = rapid.SliceOfN(rapid.Byte(), 0, 200).Draw(t, "bytes")
		} else {
			b = []byte(rapid.StringOfN(rapid.RuneFrom([]rune("abfnlet {}()[];:.,=+-*/<>!&|\"'\\\n\t 019_#@\x00é")), 0, 300, -1).Draw(t, "text"))
		}
		c.Src["main.fer"] = b
	case 1, 2:
		c.Kind = "soup"
		toks := rapid.SliceOfN(rapid.SampledFrom(c13Alphabet), 0, 60).Draw(t, "soup")
		c.Src["main.fer"] = []byte(strings.Join(toks, " "))
	case 3:
		c.Kind = "project"
		nm := rapid.IntRange(1, 3).Draw(t, "nmods")
		var imports []string
		for i := 1; i <= nm; i++ {
			name := fmt.Sprintf("m%d", i)
			var body strings.Builder
			switch rapid.IntRange(0, 7).Draw(t, "modkind") {
			case 0: // imports itself
				body.WriteString(fmt.Sprintf("import \"proj/%s\";\n", name))
			case 1: // imports main (cycle through the entry)
				body.WriteString("import \"proj/main\";\n")
			case 2: // imports a missing module
				body.WriteString("import \"proj/nothere\";\n")
			case 3: // malformed imports
				body.WriteString(rapid.SampledFrom([]string{"import 5;\n", "import \"\";\n", "import ;\n", "import \"proj/m1\" as ;\n", "import \"proj//m1/\";\n", "import \"../proj/m1\";\n", "import \"proj/m1\" as as;\n", "import \"std/nothere\";\n"}).Draw(t, "bad"))
			case 4: // import after a declaration
				body.WriteString("fn early() {}\nimport \"std/io\";\n")
			case 5: // next module (chain / cycle m1->m2->...->m1)
				body.WriteString(fmt.Sprintf("import \"proj/m%d\";\n", i%nm+1))
			}
			body.WriteString(fmt.Sprintf("fn V%d() -> i32 { return %d; }\n", i, i))
			if rapid.IntRange(0, 3).Draw(t, "damage") == 0 {
				c.Src[name+".fer"] = []byte(c13Mutate(t, body.String()))
			} else {
				c.Src[name+".fer"] = []byte(body.String())
			}
			if rapid.IntRange(0, 4).Draw(t, "imported") != 0 {
				imports = append(imports, fmt.Sprintf("import \"proj/%s\";", name))
			}
		}
		if rapid.IntRange(0, 5).Draw(t, "dup") == 0 && len(imports) > 0 {
			imports = append(imports, imports[0])
		}
		mainSrc := "import \"std/io\";\n" + strings.Join(imports, "\n") + "\nfn main() { io::Println(1); }\n"
		if rapid.IntRange(0, 4).Draw(t, "damage_main") == 0 {
			mainSrc = c13Mutate(t, mainSrc)
		}
		c.Src["main.fer"] = []byte(mainSrc)
		if rapid.IntRange(0, 9).Draw(t, "missing_file") == 0 {
			delete(c.Src, "m1.fer")
		}
	case 4, 5, 6:
		// only class-preserving substitutions: the program still parses and reaches the semantic phases / back ends
		c.Kind = "semantic"
		base := corpus[rapid.IntRange(0, len(corpus)-1).Draw(t, "base")]
		toks, gaps := c13Tokens(c13Relayout(t, base))
		ns := rapid.IntRange(1, 3).Draw(t, "nsubst")
		for k := 0; k < ns && len(toks) > 0; k++ {
			i := rapid.IntRange(0, len(toks)-1).Draw(t, "at")
			cls := c13Class(toks[i])
			if cls == "" {
				continue
			}
			var same []string
			for _, x := range toks {
				if c13Class(x) == cls && x != toks[i] {
					same = append(same, x)
				}
			}
			same = append(same, c13ClassExtra[cls]...)
			toks[i] = rapid.SampledFrom(same).Draw(t, "subst")
		}
		c.Src["main.fer"] = []byte(c13Join(toks, gaps))
	default:
		c.Kind = "mutate"
		base := corpus[rapid.IntRange(0, len(corpus)-1).Draw(t, "base")]
		c.Src["main.fer"] = []byte(c13Mutate(t, c13Relayout(t, base)))
	}
	return c
}

var c13KnownOK = map[string]bool{}

func c13Check(env *core.Env, ci any) (res core.Result) {
	c := ci.(*c13Case)
	tc := tcOf(env)
	dir := env.NextDir()
	proj := filepath.Join(dir, "proj")
	os.MkdirAll(proj, 0o755)
	for name, b := range c.Src {
		os.WriteFile(filepath.Join(proj, name), b, 0o644)
	}
	main := string(c.Src["main.fer"])
	toks, _ := c13Tokens(main)
	o := sut.CompileOpts{Timeout: 20 * time.Second}
	artifact := ""
	switch c.Target {
	case "check":
		o.TypeOnly = true
	case "wasm":
		o.Target = "wasm"
		artifact = filepath.Join(proj, "out.wasm")
		o.Out = artifact
	default:
		artifact = filepath.Join(proj, "out.bin")
		o.Out = artifact
	}
	r := tc.Compile(proj, o)
	res.Labels = append(res.Labels, "kind:"+c.Kind, "target:"+c.Target)
	show := func() string {
		var names []string
		for n := range c.Src {
			names = append(names, n)
		}
		sort.Strings(names)
		var b strings.Builder
		for _, n := range names {
			txt := string(c.Src[n])
			if len(txt) > 700 {
				txt = txt[:700] + "..."
			}
			b.WriteString(fmt.Sprintf("--- %s ---\n%q\n", n, txt))
		}
		return b.String()
	}
	if r.TimedOut {
		res.Violation = "compiler did not terminate within 20 s (target " + c.Target + ")\n" + show()
		res.VKey = "hang"
		return
	}
	if r.Crash != "" {
		res.Violation = "internal compiler crash at " + r.Crash + " (target " + c.Target + ")\n" + firstLines(r.Out, 14) + "\n" + show()
		res.VKey = "crash:" + r.Crash
		return
	}
	errs := r.Errors()
	nonLex := false
	for _, d := range errs {
		if !strings.HasPrefix(d.Code, "L") {
			nonLex = true
		}
	}
	res.NonTrivial = len(toks) >= 5 && (len(errs) == 0 || nonLex)
	if r.Exit == 0 {
		res.Labels = append(res.Labels, "accepted")
		if len(errs) > 0 {
			res.Violation = fmt.Sprintf("exit status 0 although %d error diagnostic(s) were printed (target %s): %s\n%s", len(errs), c.Target, errs[0].Msg, show())
			res.VKey = "exit0_with_errors"
			return
		}
		if artifact != "" && !fileExists(artifact) {
			res.Violation = "exit status 0 and no error diagnostic, but no output artifact was produced (target " + c.Target + ")\n" + firstLines(r.Out, 10) + "\n" + show()
			res.VKey = "success_without_artifact:" + c.Target
			return
		}
		return
	}
	res.Labels = append(res.Labels, "rejected")
	if len(errs) > 0 {
		cls := "nocode"
		if errs[0].Code != "" {
			cls = errs[0].Code[:1]
		} else if strings.HasPrefix(errs[0].Msg, "qbe") || strings.HasPrefix(errs[0].Msg, "wasm") {
			cls = "backend"
		}
		res.Labels = append(res.Labels, "first_error_class:"+cls)
	}
	if len(errs) == 0 {
		res.Violation = fmt.Sprintf("exit status %d without any error diagnostic (target %s)\n%s\n%s", r.Exit, c.Target, firstLines(r.Out, 10), show())
		res.VKey = "failure_without_diagnostic"
		return
	}
	located := false
	var bad string
	for _, d := range errs {
		if !d.HasLoc {
			continue
		}
		rel, err := filepath.Rel(proj, d.Path)
		if err != nil || strings.HasPrefix(rel, "..") {
			bad = fmt.Sprintf("location %s:%d:%d is not an input file", d.Path, d.Line, d.Col)
			continue
		}
		content, ok := c.Src[filepath.ToSlash(rel)]
		if !ok {
			bad = fmt.Sprintf("location %s:%d:%d names a file that is not part of the project", d.Path, d.Line, d.Col)
			continue
		}
		lines := strings.Split(string(content), "\n")
		if d.Line < 1 || d.Line > len(lines)+1 {
			bad = fmt.Sprintf("line %d outside %s (%d lines)", d.Line, rel, len(lines))
			continue
		}
		width := 0
		if d.Line <= len(lines) {
			ln := lines[d.Line-1]
			width = len(ln) + 3*strings.Count(ln, "\t")
		}
		if d.Col < 1 || d.Col > width+2 {
			bad = fmt.Sprintf("column %d outside line %d of %s (width %d)", d.Col, d.Line, rel, width)
			continue
		}
		located = true
	}
	if !located {
		if bad == "" {
			bad = "no error diagnostic carries a location"
		}
		res.Violation = fmt.Sprintf("failed compilation has no error diagnostic located inside an input file: %s (target %s)\n%s\n%s", bad, c.Target, firstLines(r.Out, 12), show())
		res.VKey = "no_located_error"
		if w := strings.Fields(errs[0].Msg); len(w) >= 3 {
			res.VKey = "no_located_error:" + strings.Trim(strings.Join(w[:3], "_"), ":")
		}
		return
	}
	if artifact != "" && fileExists(artifact) {
		res.Violation = fmt.Sprintf("output artifact %s left behind after a failed compilation (target %s): %s\n%s", filepath.Base(artifact), c.Target, errs[0].Msg, show())
		res.VKey = "artifact_after_failure:" + c.Target
		return
	}
	return
}

func init() {
	core.Register(&core.Prop{
		ID:    "C13",
		Rule:  "rapid-generated inputs: arbitrary bytes / weighted character text (<=300 B), token soup over Ferret's token alphabet (<=60 tokens), every .fer file of the repository (<=6 KiB) plus 4 built-in programs damaged by 1-4 mutations (truncate at token/byte, delete, duplicate, swap, replace, insert, bracket flip, window reversal, glue), and 2-4 file projects with self / cyclic / missing / malformed / late / duplicate imports and missing files; x target in {type-check, wasm, native}. Oracle per compilation: no internal crash, terminates in 20 s, exit 0 <=> no error diagnostic, failure => >=1 error diagnostic located inside an input file (line/column inside the text), no artifact after failure, artifact after success. non-trivial = >=5 tokens and the input gets past the lexer (accepted, or an error diagnostic without an L-code); distinct = hash of (files, target)",
		Gen:   c13Gen,
		New:   func() any { return &c13Case{} },
		Check: c13Check,
		Assumptions: []string{
			"compilations run through a persistent process that calls compiler.Compile like main.go; every violation is re-confirmed with the real CLI before it is reported",
			"column bound is lenient (bytes + 3 per tab + 2) because the column unit is not documented",
		},
	})
}
