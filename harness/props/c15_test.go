package props

// C15 — import graphs: every cycle is rejected, every DAG builds, under all schedules.
// Oracle: graph algorithm in the harness (cycle reachable from the entry?) and
// the value each module must compute from its dependencies.

import (
	"fmt"
	"path/filepath"
	"regexp"
	"sort"
	"strings"
	"time"

	"compiler/verifharness/core"
	"compiler/verifharness/sut"

	"pgregory.net/rapid"
)

type c15Edge struct {
	From int    `json:"f"`
	To   int    `json:"t"`
	Kind string `json:"k"` // plain | alias | double (imported twice under two aliases)
}
type c15Sched struct {
	Procs int    `json:"procs"`
	Spec  string `json:"spec"` // FERRET_VERIF_SCHED
}
type c15Case struct {
	N      int        `json:"n"`
	Edges  []c15Edge  `json:"edges"`
	Scheds []c15Sched `json:"scheds"`
	Run    bool       `json:"run"` // also build natively and run (first schedule)
	Shape  string     `json:"shape"`
}

func c15ModName(i int) string {
	if i == 0 {
		return "main"
	}
	return fmt.Sprintf("m%d", i)
}

func (c *c15Case) adj() [][]int {
	a := make([][]int, c.N)
	for _, e := range c.Edges {
		a[e.From] = append(a[e.From], e.To)
	}
	return a
}

// reachable set from 0 and whether a cycle is reachable from 0
func (c *c15Case) analyse() (reach []bool, cyclic bool) {
	a := c.adj()
	reach = make([]bool, c.N)
	color := make([]int, c.N)
	var dfs func(u int)
	dfs = func(u int) {
		reach[u] = true
		color[u] = 1
		for _, v := range a[u] {
			if color[v] == 1 {
				cyclic = true
			} else if color[v] == 0 {
				dfs(v)
			}
		}
		color[u] = 2
	}
	dfs(0)
	return
}

// expected value of module i (only meaningful on DAGs): w_i + sum over import statements of value(dep); i64 wrap-around
func (c *c15Case) values() []int64 {
	memo := make([]int64, c.N)
	done := make([]bool, c.N)
	var val func(i int) int64
	val = func(i int) int64 {
		if done[i] {
			return memo[i]
		}
		v := int64(i*7 + 1)
		for _, e := range c.Edges {
			if e.From == i {
				d := val(e.To)
				v += d
				if e.Kind == "double" {
					v += d
				}
			}
		}
		memo[i], done[i] = v, true
		return v
	}
	val(0)
	return memo
}

func (c *c15Case) Files() map[string]string {
	files := map[string]string{}
	for i := 0; i < c.N; i++ {
		var b strings.Builder
		if i == 0 {
			b.WriteString("import \"std/io\";\n")
		}
		var terms []string
		for k, e := range c.Edges {
			if e.From != i {
				continue
			}
			path := "proj/" + c15ModName(e.To)
			switch e.Kind {
			case "plain":
				b.WriteString(fmt.Sprintf("import \"%s\";\n", path))
				terms = append(terms, c15ModName(e.To)+"::V()")
			case "alias":
				al := fmt.Sprintf("a%d", k)
				b.WriteString(fmt.Sprintf("import \"%s\" as %s;\n", path, al))
				terms = append(terms, al+"::V()")
			case "double":
				al, al2 := fmt.Sprintf("a%d", k), fmt.Sprintf("b%d", k)
				b.WriteString(fmt.Sprintf("import \"%s\" as %s;\nimport \"%s\" as %s;\n", path, al, path, al2))
				terms = append(terms, al+"::V()", al2+"::V()")
			}
		}
		expr := fmt.Sprintf("%d", i*7+1)
		for _, t := range terms {
			expr += " + " + t
		}
		if i == 0 {
			b.WriteString("fn V() -> i64 { return " + expr + "; }\nfn main() { io::Println(V()); }\n")
		} else {
			b.WriteString("fn V() -> i64 { return " + expr + "; }\n")
		}
		files["proj/"+c15ModName(i)+".fer"] = b.String()
	}
	return files
}

func c15GenScheds(t *rapid.T, n int, k int) []c15Sched {
	var out []c15Sched
	for s := 0; s < k; s++ {
		sc := c15Sched{Procs: rapid.SampledFrom([]int{1, 2, 4, 16}).Draw(t, "procs")}
		var items []string
		nd := rapid.IntRange(0, min(n, 5)).Draw(t, "ndelays")
		for j := 0; j < nd; j++ {
			m := rapid.IntRange(0, n-1).Draw(t, "dmod")
			kind := rapid.SampledFrom([]string{"enter", "deps", "spawn"}).Draw(t, "dkind")
			ms := rapid.SampledFrom([]int{1, 3, 8, 15}).Draw(t, "ms")
			items = append(items, fmt.Sprintf("proj/%s@%s=%d", c15ModName(m), kind, ms))
		}
		sc.Spec = strings.Join(items, ",")
		out = append(out, sc)
	}
	return out
}

func c15EdgeKind(t *rapid.T) string {
	return rapid.SampledFrom([]string{"plain", "plain", "alias", "double"}).Draw(t, "ekind")
}

func c15Gen(t *rapid.T, env *core.Env) any {
	c := &c15Case{}
	seen := map[[2]int]bool{}
	add := func(f, to int) {
		if seen[[2]int{f, to}] {
			return
		}
		seen[[2]int{f, to}] = true
		c.Edges = append(c.Edges, c15Edge{From: f, To: to, Kind: c15EdgeKind(t)})
	}
	switch rapid.IntRange(0, 3).Draw(t, "shape") {
	case 0: // dense random digraph on few nodes (self loops, 2-cycles, long cycles)
		c.Shape = "random"
		c.N = rapid.IntRange(1, 7).Draw(t, "n")
		p := rapid.IntRange(1, 5).Draw(t, "density")
		for f := 0; f < c.N; f++ {
			for to := 0; to < c.N; to++ {
				if rapid.IntRange(0, 9).Draw(t, "e") < p-boolInt(f == to)*0 && rapid.IntRange(0, c.N).Draw(t, "thin") < 3 {
					add(f, to)
				}
			}
		}
	case 1: // layered DAG (diamonds, shared leaves), optionally closed by back edges
		c.Shape = "layered"
		c.N = rapid.IntRange(2, 24).Draw(t, "n")
		for i := 1; i < c.N; i++ {
			np := rapid.IntRange(1, 3).Draw(t, "nparents")
			for j := 0; j < np; j++ {
				add(rapid.IntRange(0, i-1).Draw(t, "parent"), i)
			}
		}
		nb := rapid.SampledFrom([]int{0, 0, 0, 1, 1, 2}).Draw(t, "nback")
		for j := 0; j < nb; j++ {
			f := rapid.IntRange(0, c.N-1).Draw(t, "bf")
			add(f, rapid.IntRange(0, f).Draw(t, "bt"))
		}
	case 2: // wide fan-out: root with k children, each with private children
		c.Shape = "fanout"
		k := rapid.IntRange(2, 14).Draw(t, "fan")
		c.N = 1 + k
		for i := 1; i <= k; i++ {
			add(0, i)
		}
		for i := 1; i <= k; i++ {
			pc := rapid.IntRange(0, 2).Draw(t, "priv")
			for j := 0; j < pc && c.N < 40; j++ {
				add(i, c.N)
				c.N++
			}
		}
		if rapid.IntRange(0, 2).Draw(t, "close") == 0 {
			f := rapid.IntRange(1, c.N-1).Draw(t, "cf")
			add(f, rapid.IntRange(0, f).Draw(t, "ct"))
		}
	default: // chain with chords
		c.Shape = "chain"
		c.N = rapid.IntRange(2, 16).Draw(t, "n")
		for i := 0; i+1 < c.N; i++ {
			add(i, i+1)
		}
		nc := rapid.IntRange(0, 4).Draw(t, "chords")
		for j := 0; j < nc; j++ {
			add(rapid.IntRange(0, c.N-1).Draw(t, "cf"), rapid.IntRange(0, c.N-1).Draw(t, "ct"))
		}
	}
	c.Scheds = c15GenScheds(t, c.N, rapid.IntRange(2, 3).Draw(t, "nsched"))
	c.Run = rapid.IntRange(0, 2).Draw(t, "run") == 0
	return c
}

func boolInt(b bool) int {
	if b {
		return 1
	}
	return 0
}

func c15Exhaustive(env *core.Env) []any {
	var cases []any
	maxN := 3
	for n := 1; n <= maxN; n++ {
		ne := n * n
		for mask := 0; mask < 1<<ne; mask++ {
			c := &c15Case{N: n, Shape: "exhaustive"}
			for b := 0; b < ne; b++ {
				if mask&(1<<b) != 0 {
					kinds := []string{"plain", "alias", "double"}
					c.Edges = append(c.Edges, c15Edge{From: b / n, To: b % n, Kind: kinds[(mask+b)%3]})
				}
			}
			// two fixed schedule configurations: single-threaded, and parallel with the entry's edges added late
			c.Scheds = []c15Sched{{Procs: 1}, {Procs: 4, Spec: "proj/main@deps=5,proj/m1@spawn=3"}}
			c.Run = mask%16 == 5
			cases = append(cases, c)
		}
	}
	return cases
}

var c15Tick = regexp.MustCompile(`^\s*✓ (\S+)\s*$`)
var c15Phase = regexp.MustCompile(`^\[Phase (\d+)\] (.*)$`)
var c15GenList = regexp.MustCompile(`Generating QBE for \d+ modules: \[(.*)\]`)

// c15OncePerPhase reads the compiler's -d trace: inside each "[Phase k]" section every reachable
// project module must be ticked the same number of times (exactly once in phases 1-3, where one
// tick = one lex/parse, collection, resolution) and unreachable modules never.
func c15OncePerPhase(out string, c *c15Case, reach []bool) []string {
	var problems []string
	phase := 0
	counts := map[int]map[string]int{}
	sawPhase1 := false
	for _, ln := range strings.Split(out, "\n") {
		if m := c15Phase.FindStringSubmatch(ln); m != nil {
			fmt.Sscan(m[1], &phase)
			counts[phase] = map[string]int{}
			if phase == 1 {
				sawPhase1 = true
			}
			continue
		}
		if m := c15Tick.FindStringSubmatch(ln); m != nil && phase > 0 {
			counts[phase][m[1]]++
		}
		if m := c15GenList.FindStringSubmatch(ln); m != nil {
			seen := map[string]int{}
			for _, f := range strings.Fields(m[1]) {
				seen[f]++
			}
			for i := 0; i < c.N; i++ {
				name := "proj/" + c15ModName(i)
				want := 0
				if reach[i] {
					want = 1
				}
				if seen[name] != want {
					problems = append(problems, fmt.Sprintf("code generation lists %s %d times (want %d)", name, seen[name], want))
				}
			}
		}
	}
	if !sawPhase1 {
		return nil
	}
	var phases []int
	for p := range counts {
		phases = append(phases, p)
	}
	sort.Ints(phases)
	for _, p := range phases {
		want := -1
		for i := 0; i < c.N; i++ {
			name := "proj/" + c15ModName(i)
			n := counts[p][name]
			if !reach[i] {
				if n != 0 {
					problems = append(problems, fmt.Sprintf("phase %d: unreachable %s processed", p, name))
				}
				continue
			}
			if p <= 3 && n != 1 {
				problems = append(problems, fmt.Sprintf("phase %d: %s processed %d times", p, name, n))
			}
			if want == -1 {
				want = n
			} else if n != want {
				problems = append(problems, fmt.Sprintf("phase %d: %s processed %d times, others %d", p, name, n, want))
			}
		}
		if want == 0 {
			problems = append(problems, fmt.Sprintf("phase %d processed no project module", p))
		}
	}
	sort.Strings(problems)
	return problems
}

func c15Check(env *core.Env, ci any) (res core.Result) {
	c := ci.(*c15Case)
	tc := tcOf(env)
	reach, cyclic := c.analyse()
	dir := env.NextDir()
	sut.WriteProject(dir, c.Files())
	proj := filepath.Join(dir, "proj")
	nreach := 0
	indeg := make([]int, c.N)
	for _, e := range c.Edges {
		if reach[e.From] {
			indeg[e.To]++
		}
	}
	shared := false
	for i := range reach {
		if reach[i] {
			nreach++
			if indeg[i] >= 2 {
				shared = true
			}
		}
	}
	selfOnly := true // cycle only through the entry importing itself?
	if cyclic {
		for _, e := range c.Edges {
			if reach[e.From] && !(e.From == 0 && e.To == 0) && e.From >= e.To {
				selfOnly = false
			}
		}
	}
	res.NonTrivial = shared || (cyclic && !selfOnly)
	res.Labels = append(res.Labels, "shape:"+c.Shape)
	if cyclic {
		res.Labels = append(res.Labels, "cyclic")
	} else {
		res.Labels = append(res.Labels, "dag")
	}
	desc := func() string {
		var es []string
		for _, e := range c.Edges {
			es = append(es, fmt.Sprintf("%s->%s(%s)", c15ModName(e.From), c15ModName(e.To), e.Kind))
		}
		return fmt.Sprintf("n=%d edges=[%s]", c.N, strings.Join(es, " "))
	}
	for si, sc := range c.Scheds {
		native := c.Run && si == 0
		o := sut.CompileOpts{TypeOnly: !native, GoMaxProcs: sc.Procs, Sched: sc.Spec, Debug: true, Timeout: 25 * time.Second}
		exe := filepath.Join(proj, "out.bin")
		if native {
			o.Out = exe
			o.KeepGen = true
		}
		r := tc.Compile(proj, o)
		where := fmt.Sprintf("%s under schedule {GOMAXPROCS=%d %q}", desc(), sc.Procs, sc.Spec)
		if r.TimedOut {
			res.Violation = "compilation did not terminate within 25 s (deadlock?): " + where
			res.VKey = "hang"
			return
		}
		if r.Crash != "" {
			res.Violation = "internal compiler crash at " + r.Crash + ": " + where + "\n" + firstLines(r.Out, 15)
			res.VKey = "crash:" + r.Crash
			return
		}
		if cyclic {
			if r.Exit == 0 {
				res.Violation = "project with an import cycle reachable from the entry compiled successfully: " + where
				res.VKey = "cycle_accepted"
				return
			}
			if !strings.Contains(r.Out, "circular import") {
				res.Violation = "cyclic project failed without a circular-import error: " + where + "\n" + firstLines(r.Out, 12)
				res.VKey = "cycle_no_diag"
				return
			}
			if native {
				if _, err := filepath.Glob(exe); err == nil {
					if fileExists(exe) {
						res.Violation = "executable produced for a cyclic project: " + where
						res.VKey = "cycle_partial_build"
						return
					}
				}
			}
			continue
		}
		// DAG
		if r.Exit != 0 || len(r.Errors()) > 0 {
			res.Violation = "acyclic import graph failed to compile: " + where + "\n" + firstLines(r.Out, 14)
			res.VKey = "dag_rejected"
			return
		}
		// every reachable module processed exactly once per phase, nothing else from the project
		if problems := c15OncePerPhase(r.Out, c, reach); len(problems) > 0 {
			res.Violation = "modules not processed exactly once: " + strings.Join(problems, "; ") + ": " + where
			res.VKey = "not_once"
			return
		}
		if native {
			run := sut.RunNative(exe, 0)
			want := fmt.Sprint(c.values()[0])
			if run.Term() != "ok" || strings.TrimSpace(run.Stdout) != want {
				res.Violation = fmt.Sprintf("executable of acyclic project printed %q (%s), expected %s: %s", strings.TrimSpace(run.Stdout), run.Term(), want, where)
				res.VKey = "dag_wrong_value"
				return
			}
			ssa, _ := filepath.Glob(filepath.Join(proj, "gen", "*.ssa"))
			have := map[string]int{}
			for _, f := range ssa {
				have[filepath.Base(f)]++
			}
			for i := 0; i < c.N; i++ {
				f := "proj_" + c15ModName(i) + ".ssa"
				if reach[i] && have[f] != 1 {
					res.Violation = fmt.Sprintf("expected exactly one generated %s, found %d (gen: %v): %s", f, have[f], keys(have), where)
					res.VKey = "gen_files"
					return
				}
			}
			res.Labels = append(res.Labels, "ran_native")
		}
	}
	return
}

func keys(m map[string]int) []string {
	var k []string
	for s := range m {
		k = append(k, s)
	}
	sort.Strings(k)
	return k
}

func init() {
	core.Register(&core.Prop{
		ID:         "C15",
		Rule:       "exhaustive: every directed graph (self loops included) on n<=3 modules (1+16+512 graphs), each compiled under 2 schedule configurations; rapid: dense random digraphs n<=7, layered DAGs n<=24 with optional back edges, wide fan-outs (2..14 children with private sub-imports, up to 40 modules) and chains with chords, each under 2-3 generated schedules (GOMAXPROCS in {1,2,4,16} x per-module delays at the enter/deps/spawn hook points). Edges are rendered as plain, aliased or doubly-aliased imports; every module exports V() = w_i + sum of its imports' V(). Oracle: a cycle reachable from the entry => exit != 0 with a 'circular import' error, no executable, no hang (25 s); otherwise it compiles, every reachable module is parsed exactly once (debug trace), and (sampled: 1/3 of rapid cases, 1/16 of exhaustive) the native executable prints the value computed from the graph with one .ssa per module. non-trivial = a reachable module with in-degree >= 2, or a cycle other than the entry importing itself; distinct = hash of (graph, edge kinds, schedules)",
		Gen:        c15Gen,
		New:        func() any { return &c15Case{} },
		Check:      c15Check,
		Exhaustive: c15Exhaustive,
		Assumptions: []string{
			"schedules are steered at module granularity through the verif build-tag hook and GOMAXPROCS; finer interleavings are only sampled by repetition",
			"'processed exactly once' is observed through the compiler's own -d trace (one '✓ <module>' line per parse)",
			"a hang is a 25 s timeout, re-confirmed through the real CLI before it is reported",
		},
	})
}
