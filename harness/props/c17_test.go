package props

// C17 — runtime maps and dynamic arrays behave as abstract maps/lists, memory-safely.
// Model-based: generated operation histories are executed against the real C
// runtime (ASan+UBSan build, co-process) and against a Go map / slice; the
// invariant is evaluated after every step.

import (
	"encoding/hex"
	"fmt"
	"path/filepath"
	"sort"
	"strings"

	"compiler/verifharness/core"
	"compiler/verifharness/sut"

	"pgregory.net/rapid"
)

type c17Op struct {
	Op string `json:"op"`
	K  int    `json:"k,omitempty"` // key index (map) / element index (array)
	V  int    `json:"v,omitempty"` // value seed
}
type c17Case struct {
	Kind   string  `json:"kind"`   // map | arr
	Flavor int     `json:"flavor"` // map: 0 i32 1 i64 2 str 3 bytes
	KS     int     `json:"ks"`
	VS     int     `json:"vs"`             // value / element size
	Cap    int     `json:"cap"`            // array initial capacity
	Init   []c17Op `json:"init,omitempty"` // from_pairs initial pairs (may contain duplicate keys)
	Ops    []c17Op `json:"ops"`
}

func c17Val(seed, size int) string {
	b := make([]byte, size)
	x := uint32(seed)*2654435761 + 12345
	for i := range b {
		x = x*1664525 + 1013904223
		b[i] = byte(x >> 24)
	}
	if size > 0 {
		b[0] = byte(seed) // keep it recognisable
	}
	return hexOrDash(b)
}
func hexOrDash(b []byte) string {
	if len(b) == 0 {
		return "-"
	}
	return hex.EncodeToString(b)
}

func (c *c17Case) key(i int) string {
	switch c.Flavor {
	case 0, 1, 3:
		b := make([]byte, c.KS)
		x := uint64(i)
		if i%3 == 1 {
			x = uint64(i) * 0x9E3779B97F4A7C15 // spread over all bytes
		} else if i%3 == 2 {
			x = ^uint64(i) // negative numbers
		}
		for j := range b {
			b[j] = byte(x >> (8 * uint(j%8)))
		}
		return hexOrDash(b)
	default:
		var s string
		switch i % 4 {
		case 0:
			s = fmt.Sprintf("k%d", i)
		case 1:
			s = strings.Repeat("a", i/4) // "", "a", "aa", ... shared prefixes
		case 2:
			s = fmt.Sprintf("key-with-long-common-prefix-%03d", i)
		default:
			s = fmt.Sprintf("%d\x01\x7f", i)
		}
		return hexOrDash([]byte(s))
	}
}

func c17Gen(t *rapid.T, env *core.Env) any {
	c := &c17Case{}
	if rapid.IntRange(0, 3).Draw(t, "kind") == 0 {
		c.Kind = "arr"
		c.VS = rapid.SampledFrom([]int{1, 4, 8, 16, 36}).Draw(t, "esize")
		c.Cap = rapid.IntRange(0, 8).Draw(t, "cap")
		n := rapid.IntRange(0, 60).Draw(t, "nops")
		length := 0
		for i := 0; i < n; i++ {
			var op c17Op
			switch rapid.IntRange(0, 9).Draw(t, "op") {
			case 0, 1, 2, 3:
				op = c17Op{Op: rapid.SampledFrom([]string{"append", "append_wrapper"}).Draw(t, "how"), V: i + 1}
				length++
			case 4, 5:
				op = c17Op{Op: "get", K: rapid.IntRange(-2, length+2).Draw(t, "idx")}
			case 6, 7:
				op = c17Op{Op: "set", K: rapid.IntRange(-2, length+2).Draw(t, "idx"), V: 1000 + i}
			case 8:
				op = c17Op{Op: "resize", K: rapid.IntRange(0, 2*length+2).Draw(t, "newcap")}
			default:
				op = c17Op{Op: "len"}
			}
			c.Ops = append(c.Ops, op)
		}
		return c
	}
	c.Kind = "map"
	c.Flavor = rapid.IntRange(0, 3).Draw(t, "flavor")
	switch c.Flavor {
	case 0:
		c.KS = 4
	case 1, 2:
		c.KS = 8
	default:
		c.KS = rapid.SampledFrom([]int{1, 3, 8, 16, 33}).Draw(t, "ks")
	}
	c.VS = rapid.SampledFrom([]int{1, 4, 8, 16, 36}).Draw(t, "vs")
	space := rapid.SampledFrom([]int{3, 8, 20, 60, 150}).Draw(t, "keyspace")
	if c.Flavor == 3 && c.KS == 1 && space > 100 {
		space = 100
	}
	if rapid.IntRange(0, 2).Draw(t, "frompairs") == 0 {
		n := rapid.IntRange(0, 40).Draw(t, "npairs")
		for i := 0; i < n; i++ {
			c.Init = append(c.Init, c17Op{Op: "pair", K: rapid.IntRange(0, space-1).Draw(t, "k"), V: 5000 + i})
		}
	}
	maxOps := rapid.SampledFrom([]int{10, 40, 120, 260}).Draw(t, "maxops")
	n := rapid.IntRange(0, maxOps).Draw(t, "nops")
	next := 0 // many histories insert fresh keys in sequence so that thresholds (13, 25, 49, 97) are crossed
	for i := 0; i < n; i++ {
		k := rapid.IntRange(0, space-1).Draw(t, "k")
		var op c17Op
		switch rapid.IntRange(0, 11).Draw(t, "op") {
		case 0, 1, 2, 3, 4:
			if rapid.Bool().Draw(t, "fresh") && next < space {
				k = next
				next++
			}
			op = c17Op{Op: "set", K: k, V: i + 1}
		case 5:
			op = c17Op{Op: "get", K: k}
		case 6:
			op = c17Op{Op: "getopt", K: k}
		case 7:
			op = c17Op{Op: "has", K: k}
		case 8:
			op = c17Op{Op: "unwrap", K: k, V: 9000 + i}
		case 9:
			op = c17Op{Op: "size"}
		default:
			op = c17Op{Op: "iter"}
		}
		c.Ops = append(c.Ops, op)
	}
	return c
}

func c17Coproc(env *core.Env) (*sut.Coproc, error) {
	v, err := env.Resource("maparr", func() (any, error) {
		cp, err := sut.StartCoproc(filepath.Join(env.Toolchain, "cdrv", "maparr_drv"),
			"ASAN_OPTIONS=detect_leaks=0:abort_on_error=0:exitcode=99:allocator_may_return_null=1", "UBSAN_OPTIONS=print_stacktrace=1:halt_on_error=1")
		if err != nil {
			return nil, err
		}
		closers = append(closers, cp.Close)
		return cp, nil
	})
	if err != nil {
		return nil, err
	}
	return v.(*sut.Coproc), nil
}

func c17Check(env *core.Env, ci any) (res core.Result) {
	c := ci.(*c17Case)
	cp, err := c17Coproc(env)
	if err != nil {
		res.Infra = "cannot start maparr driver: " + err.Error()
		return
	}
	var hist []string
	call := func(format string, a ...any) string {
		line := fmt.Sprintf(format, a...)
		hist = append(hist, line)
		r, err := cp.Call(line)
		if err != nil {
			env.DropResource("maparr")
			de, _ := err.(*sut.DeadError)
			msg := err.Error()
			if de != nil {
				msg = de.Stderr
			}
			panic(c17Fail{key: sut.SanitizerSummary(msg), msg: "runtime died (memory error?) after:\n  " + strings.Join(tail(hist, 12), "\n  ") + "\n" + firstLines(msg, 25)})
		}
		hist[len(hist)-1] += "  => " + r
		return r
	}
	defer func() {
		if r := recover(); r != nil {
			f, ok := r.(c17Fail)
			if !ok {
				panic(r)
			}
			res.Violation = f.msg
			res.VKey = f.key
		}
	}()
	failf := func(key, format string, a ...any) {
		panic(c17Fail{key: key, msg: fmt.Sprintf(format, a...) + "\nhistory (tail):\n  " + strings.Join(tail(hist, 14), "\n  ")})
	}
	call("reset")
	if c.Kind == "arr" {
		c17Array(c, call, failf, &res)
	} else {
		c17Map(c, call, failf, &res)
	}
	return
}

type c17Fail struct{ key, msg string }

func tail(s []string, n int) []string {
	if len(s) > n {
		return s[len(s)-n:]
	}
	return s
}
func firstLines(s string, n int) string {
	l := strings.Split(s, "\n")
	if len(l) > n {
		l = l[:n]
	}
	return strings.Join(l, "\n")
}

func c17Array(c *c17Case, call func(string, ...any) string, failf func(string, string, ...any), res *core.Result) {
	h := call("anew %d %d", c.VS, c.Cap)
	if h == "-1" {
		res.Infra = "array alloc failed"
		return
	}
	var model []string
	grew, afterGrow := false, false
	initCap := c.Cap
	if initCap < 4 {
		initCap = 4
	}
	check := func() {
		r := call("alen %s", h)
		var l1, l2, capv int
		fmt.Sscan(r, &l1, &l2, &capv)
		if l1 != len(model) || l2 != len(model) {
			failf("arr_len", "array length %d/%d, model %d", l1, l2, len(model))
		}
		if capv < l1 {
			failf("arr_cap", "capacity %d < length %d", capv, l1)
		}
		d := call("adump %s", h)
		want := "empty"
		if len(model) > 0 {
			want = strings.Join(model, " ")
		}
		if d != want {
			failf("arr_content", "array content differs from the list of appended/set elements\n got  %s\n want %s", d, want)
		}
	}
	for _, op := range c.Ops {
		switch op.Op {
		case "append", "append_wrapper":
			w := 0
			if op.Op == "append_wrapper" {
				w = 1
			}
			v := c17Val(op.V, c.VS)
			if r := call("aappend %s %d %s", h, w, v); r != "1" {
				failf("arr_append", "append returned %s", r)
			}
			model = append(model, v)
			if len(model) > initCap {
				grew = true
			}
		case "get":
			r := call("aget %s %d", h, op.K)
			if op.K >= 0 && op.K < len(model) {
				if r != "some "+model[op.K] {
					failf("arr_get", "get(%d) = %s, want %s", op.K, r, model[op.K])
				}
			} else {
				if r != "none" {
					failf("arr_get_oob", "get(%d) on length %d not refused: %s", op.K, len(model), r)
				}
				afterGrow = afterGrow || grew
			}
		case "set":
			v := c17Val(op.V, c.VS)
			r := call("aset %s %d %s", h, op.K, v)
			if op.K >= 0 && op.K < len(model) {
				if r != "1" {
					failf("arr_set", "set(%d) refused on length %d", op.K, len(model))
				}
				model[op.K] = v
				afterGrow = afterGrow || grew
			} else if r != "0" {
				failf("arr_set_oob", "set(%d) on length %d not refused", op.K, len(model))
			}
		case "resize":
			call("aresize %s %d", h, op.K)
		case "len":
		}
		check()
	}
	check()
	call("afree %s", h)
	res.NonTrivial = grew && afterGrow
	res.Labels = append(res.Labels, "kind:arr")
	if grew {
		res.Labels = append(res.Labels, "arr:grew")
	}
}

func c17Map(c *c17Case, call func(string, ...any) string, failf func(string, string, ...any), res *core.Result) {
	model := map[string]string{}
	var h string
	if c.Init != nil {
		var sb strings.Builder
		for _, p := range c.Init {
			k, v := c.key(p.K), c17Val(p.V, c.VS)
			sb.WriteString(" " + k + " " + v)
			model[k] = v // later duplicates win, as with successive sets
		}
		h = call("mfrom %d %d %d %d%s", c.Flavor, c.KS, c.VS, len(c.Init), sb.String())
		res.Labels = append(res.Labels, "map:from_pairs")
	} else {
		h = call("mnew %d %d %d", c.Flavor, c.KS, c.VS)
	}
	if h == "-1" {
		res.Infra = "map alloc failed"
		return
	}
	resized, afterResize := len(model) > 12, false
	full := func() {
		r := call("msize %s", h)
		var s1, s2 int
		fmt.Sscan(r, &s1, &s2)
		if s1 != len(model) || s2 != len(model) {
			failf("map_size", "map size %d/%d, model has %d distinct keys", s1, s2, len(model))
		}
		it := call("miter %s", h)
		var got []string
		if it != "empty" {
			got = strings.Fields(it)
		}
		var want []string
		for k, v := range model {
			want = append(want, k+":"+v)
		}
		sort.Strings(got)
		sort.Strings(want)
		if strings.Join(got, " ") != strings.Join(want, " ") {
			failf("map_iter", "iteration does not yield each entry exactly once\n got  %d entries: %s\n want %d entries: %s", len(got), clip(strings.Join(got, " ")), len(want), clip(strings.Join(want, " ")))
		}
		keys := make([]string, 0, len(model))
		for k := range model {
			keys = append(keys, k)
		}
		sort.Strings(keys)
		for _, k := range keys {
			if r := call("mget %s %s", h, k); r != "some "+model[k] {
				failf("map_get", "get(%s) = %s, want %s", k, r, model[k])
			}
		}
	}
	full()
	fullEvery := 1
	for i, op := range c.Ops {
		k := c.key(op.K)
		mv, present := model[k]
		switch op.Op {
		case "set":
			v := c17Val(op.V, c.VS)
			if r := call("mset %s %s %s", h, k, v); r != "1" {
				failf("map_set", "set returned %s", r)
			}
			if present {
				afterResize = afterResize || resized
			}
			model[k] = v
			if len(model) > 12 {
				resized = true
			}
			if r := call("mget %s %s", h, k); r != "some "+v {
				failf("map_get_after_set", "get(%s) right after set = %s, want %s (size now %d)", k, r, v, len(model))
			}
		case "get":
			r := call("mget %s %s", h, k)
			if present && r != "some "+mv || !present && r != "none" {
				failf("map_get", "get(%s) = %s, model: present=%v %s", k, r, present, mv)
			}
			if !present {
				afterResize = afterResize || resized
			}
		case "getopt":
			r := call("mgetopt %s %s", h, k)
			f := strings.Fields(r)
			if present && (f[0] != "1" || f[1] != mv) || !present && f[0] != "0" {
				failf("map_getopt", "get_optional_out(%s) = %s, model: present=%v %s", k, r, present, mv)
			}
		case "has":
			r := call("mhas %s %s", h, k)
			if (r == "1") != present {
				failf("map_has", "has(%s) = %s, model present=%v", k, r, present)
			}
		case "unwrap":
			d := c17Val(op.V, c.VS)
			r := call("munwrap %s %s %s", h, k, d)
			want := d
			if present {
				want = mv
			}
			if r != want {
				failf("map_unwrap", "unwrap_or(%s) = %s, want %s (present=%v)", k, r, want, present)
			}
		case "size", "iter":
			full()
			continue
		}
		if len(model) > 16 {
			fullEvery = 8
		}
		n := len(model)
		if i%fullEvery == 0 || n == 12 || n == 13 || n == 24 || n == 25 || n == 48 || n == 49 || n == 96 || n == 97 {
			full()
		} else {
			r := call("msize %s", h)
			var s1, s2 int
			fmt.Sscan(r, &s1, &s2)
			if s1 != n || s2 != n {
				failf("map_size", "map size %d/%d, model has %d distinct keys", s1, s2, n)
			}
		}
	}
	full()
	call("mfree %s", h)
	res.NonTrivial = resized && afterResize
	res.Labels = append(res.Labels, fmt.Sprintf("kind:map/flavor%d", c.Flavor))
	if resized {
		res.Labels = append(res.Labels, "map:resized")
	}
	if len(model) > 24 {
		res.Labels = append(res.Labels, "map:resized_twice")
	}
}

func clip(s string) string {
	if len(s) > 600 {
		return s[:600] + "..."
	}
	return s
}

func init() {
	core.Register(&core.Prop{
		ID:    "C17",
		Rule:  "rapid-generated operation histories against the real runtime (clang ASan+UBSan build of map.c, array.c, optional.c, len.c, append.c, co-process): maps of flavour i32/i64/str/bytes(k) x value sizes {1,4,8,16,36}, optional from_pairs with duplicate keys, then set/get/get_optional_out/has/unwrap_or/size/iterate over key spaces 3..150 (fresh-key runs cross the 13/25/49/97 resize thresholds); arrays with elem sizes {1,4,8,16,36}, initial cap 0..8, append (direct and via ferret_append_array)/get/set with indices in [-2,len+2]/resize/len. Model: Go map / slice; invariant (size, every lookup, iteration yields each entry exactly once, array dump) after every step (every 8th step above 16 keys, always at thresholds). non-trivial = history crosses >=1 resize/growth and then updates an existing key, misses, or sets/refuses an index; distinct = hash of the history",
		Gen:   c17Gen,
		New:   func() any { return &c17Case{} },
		Check: c17Check,
		Assumptions: []string{
			"leaks are not part of the property (detect_leaks=0)",
			"string keys are NUL-terminated C strings kept alive by the caller (the map stores the pointer), as the compiler does",
			"allocation failure paths are not exercised",
		},
	})
}
