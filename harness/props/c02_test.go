package props

// C02 — the QBE (native) and WebAssembly back ends agree.
// Differential: a generated program that both targets accept must print the same
// sequence of values and terminate the same way when the native executable runs
// and when the .wasm module runs under the shipped JS runtime.

import (
	"fmt"
	"os"
	"path/filepath"
	"strconv"
	"strings"

	"compiler/verifharness/core"
	"compiler/verifharness/fer"
	"compiler/verifharness/sut"

	"pgregory.net/rapid"
)

func wasmRunner(env *core.Env) (*sut.WasmRunner, error) {
	v, err := env.Resource("wasmrunner", func() (any, error) {
		w := sut.NewWasmRunner(sut.Toolchain{Dir: env.Toolchain})
		closers = append(closers, w.Close)
		return w, nil
	})
	if err != nil {
		return nil, err
	}
	return v.(*sut.WasmRunner), nil
}

func c02Gen(t *rapid.T, env *core.Env) any {
	// two more families: indexing programs (C04/C08's generator) and constant-rich programs (C09's)
	switch rapid.IntRange(0, 9).Draw(t, "family") {
	case 0, 1:
		kind := rapid.SampledFrom([]string{"fixed", "fixed", "dyn", "str"}).Draw(t, "ixkind")
		p := fer.GenerateIndexing(t, kind, env.Use)
		out := fer.Run(p)
		c := &progCase{Src: p.Source(), Expect: out.Lines, Term: out.Term, Features: p.Features, Stats: map[string]int{"steps": out.Steps}}
		if out.Err != "" {
			c.Discard = "model: " + out.Err
		}
		return c
	case 2, 3:
		p := fer.GenerateConsts(t, env.Use)
		out := fer.Run(p)
		c := &progCase{Src: p.Source(), Expect: out.Lines, Term: out.Term, Features: p.Features, Stats: map[string]int{"steps": out.Steps}}
		if out.Err != "" {
			c.Discard = "model: " + out.Err
		}
		return c
	}
	// the intersection both back ends accept today, plus one probing feature at a time
	cfg := fer.Config{Structs: true, Methods: true, Enums: true, Fixed: true, Dyn: true, Refs: true, Recursion: true, Narrow: true, MaxScen: 5}
	switch rapid.IntRange(0, 9).Draw(t, "probe") {
	case 0:
		cfg.Str = true
	case 1:
		cfg.Results = true
	case 2:
		cfg.Closures = true
	}
	c := genProgCase(t, env, cfg)
	c.Src = c02FloatAddon(t, c.Src)
	return c
}

// c02FloatAddon appends a float scenario (f32/f64 arithmetic, comparisons, int<->float casts);
// floats have no reference semantics in the model, the two back ends are compared with each other only.
func c02FloatAddon(t *rapid.T, src string) string {
	if rapid.IntRange(0, 1).Draw(t, "floats") == 0 {
		return src
	}
	ft := rapid.SampledFrom([]string{"f64", "f64", "f32"}).Draw(t, "ftype")
	lits := []string{"0.5", "1.5", "2.25", "3.0", "10.0", "0.125", "100.0", "7.75"}
	a := rapid.SampledFrom(lits).Draw(t, "fa")
	b := rapid.SampledFrom(lits).Draw(t, "fb")
	n := rapid.IntRange(-50, 50).Draw(t, "fn")
	ops := []string{"+", "-", "*", "/"}
	o1 := rapid.SampledFrom(ops).Draw(t, "fo1")
	o2 := rapid.SampledFrom(ops).Draw(t, "fo2")
	cmp := rapid.SampledFrom([]string{"<", "<=", ">", ">=", "==", "!="}).Draw(t, "fcmp")
	fn := fmt.Sprintf(`fn fscen() {
    let fa: %[1]s = %[2]s;
    let fb: %[1]s = %[3]s;
    let n: i32 = %[4]d;
    let fc: %[1]s = (fa %[5]s fb) %[6]s (n as %[1]s);
    let fd: %[1]s = fc * 0.5 + fa;
    let k: i32 = (fd as i32);
    let acc: %[1]s = 0.0;
    for i in 0..4 {
        acc = acc + fa * (i as %[1]s);
    }
    io::Println(fc, fd, k, acc, fa %[7]s fb, fc %[7]s fd);
}
`, ft, a, b, n, o1, o2, cmp)
	src = strings.Replace(src, "fn main() {\n", fn+"\nfn main() {\n    fscen();\n", 1)
	return src
}

// valuesEqual compares two whitespace-separated value sequences; numeric tokens with a
// fraction/exponent are compared as numbers with a relative tolerance (native prints %g).
func valuesEqual(a, b []string) (bool, string) {
	if len(a) != len(b) {
		return false, fmt.Sprintf("%d values vs %d values", len(a), len(b))
	}
	for i := range a {
		if a[i] == b[i] {
			continue
		}
		fa, ea := strconv.ParseFloat(a[i], 64)
		fb, eb := strconv.ParseFloat(b[i], 64)
		if ea == nil && eb == nil && (strings.ContainsAny(a[i], ".eE") || strings.ContainsAny(b[i], ".eE") || strings.Contains(a[i]+b[i], "inf") || strings.Contains(a[i]+b[i], "nan")) {
			d := fa - fb
			if d < 0 {
				d = -d
			}
			m := fa
			if m < 0 {
				m = -m
			}
			if d <= 1e-5*m+1e-9 {
				continue
			}
		}
		return false, fmt.Sprintf("value %d: native %q, wasm %q", i+1, a[i], b[i])
	}
	return true, ""
}

func c02Check(env *core.Env, ci any) (res core.Result) {
	c := ci.(*progCase)
	if c.Discard != "" {
		res.Discard = c.Discard
		return
	}
	tc := tcOf(env)
	dir := env.NextDir()
	sut.WriteProject(dir, c.Files())
	res.Key = c.Src
	wasmPath := filepath.Join(dir, "out.wasm")
	rw := tc.Compile(dir, sut.CompileOpts{Target: "wasm", Out: wasmPath})
	if rw.TimedOut || rw.Crash != "" {
		res.Discard = "wasm compile crashed/hung (C13's matter)"
		return
	}
	if rw.Exit != 0 || !fileExists(wasmPath) {
		res.Discard = "not accepted by the wasm target"
		if es := rw.Errors(); len(es) > 0 {
			w := strings.Fields(identRe.ReplaceAllString(es[0].Msg, "'X'"))
			if len(w) > 4 {
				w = w[:4]
			}
			res.Labels = append(res.Labels, "wasm_rejects:"+strings.Join(w, "_"))
		}
		return
	}
	exe := filepath.Join(dir, "out.bin")
	rn := tc.Compile(dir, sut.CompileOpts{Out: exe})
	if rn.TimedOut || rn.Crash != "" || rn.Exit != 0 || !fileExists(exe) {
		res.Discard = "not accepted by the native target (C01's matter)"
		if rn.Crash != "" || rn.TimedOut {
			if d := os.Getenv("VERIF_C02_DUMP"); d != "" {
				os.WriteFile(d, []byte(c.Src+"\n/*\n"+firstLines(rn.Out, 6)+"\n*/\n"), 0o644)
			}
			res.Labels = append(res.Labels, fmt.Sprintf("native_crash:%s/%v", rn.Crash, rn.TimedOut))
		} else if len(rn.Errors()) == 0 {
			res.Labels = append(res.Labels, fmt.Sprintf("native_exit%d_noerr:%s", rn.Exit, firstLines(rn.Out, 2)))
		}
		if es := rn.Errors(); len(es) > 0 {
			w := strings.Fields(identRe.ReplaceAllString(es[0].Msg, "'X'"))
			if len(w) > 5 {
				w = w[:5]
			}
			res.Labels = append(res.Labels, "native_rejects:"+strings.Join(w, "_"))
		}
		return
	}
	wr, err := wasmRunner(env)
	if err != nil {
		res.Infra = "wasm runner: " + err.Error()
		return
	}
	w, err := wr.Run(wasmPath)
	if err != nil {
		res.Infra = err.Error()
		return
	}
	if w.Status == "linkerror" {
		res.Discard = "wasm module does not instantiate with the shipped runtime (outside 'accepted by both')"
		if d := os.Getenv("VERIF_C02_DUMP"); d != "" && strings.Contains(w.Msg, "local.set") {
			os.WriteFile(d+".link", []byte(c.Src+"\n/*\n"+w.Msg+"\n*/\n"), 0o644)
		}
		m := w.Msg
		if i := strings.Index(m, "function import requires"); i > 0 {
			m = m[:i]
		}
		if j := strings.Index(m, " @+"); j > 0 {
			m = m[:j]
		}
		if len(m) > 70 {
			m = m[len(m)-70:]
		}
		res.Labels = append(res.Labels, "wasm_linkerror:"+m)
		return
	}
	if w.Status == "error" {
		res.Infra = "wasm runner error: " + w.Msg
		return
	}
	n := sut.RunNative(exe, 0)
	nterm := n.Term()
	wterm := map[string]string{"ok": "ok", "trap": "panic", "timeout": "timeout"}[w.Status]
	nvals := strings.Fields(n.Stdout)
	wvals := strings.Fields(strings.Join(w.Lines, "\n"))
	res.NonTrivial = len(nvals) >= 6
	if strings.Contains(c.Src, "fn fscen()") {
		res.Labels = append(res.Labels, "floats")
	}
	if nterm != wterm {
		res.Violation = fmt.Sprintf("termination differs: native %s, wasm %s (%s)\nnative stdout: %s\nwasm lines: %s\n--- program ---\n%s", nterm, wterm, w.Msg, firstLines(n.Stdout, 20), firstLines(strings.Join(w.Lines, "\n"), 20), c.Src)
		res.VKey = "termination:" + nterm + "_vs_" + wterm
		return
	}
	if ok, why := valuesEqual(nvals, wvals); !ok {
		res.Violation = fmt.Sprintf("printed values differ (%s)\nnative: %s\nwasm:   %s\n--- program ---\n%s", why, firstLines(n.Stdout, 30), firstLines(strings.Join(w.Lines, "\n"), 30), c.Src)
		res.VKey = "values_differ"
		return
	}
	return
}

func init() {
	core.Register(&core.Prop{
		ID:    "C02",
		Rule:  "three generator families: (60%) rapid-generated programs from the fer model restricted to what both back ends accept today (ints up to 64 bit incl. 8/16-bit, bool, nested structs, methods, enums/match, fixed and dynamic arrays, references, loops, recursion; one of strings/results/closures as a probing feature in 30% of the cases) plus, in half of these cases, a float scenario (f32/f64 arithmetic, comparisons, int<->float casts, accumulation loop); (20%) indexing programs over one fixed array / dynamic array / string with literal, const, let, arithmetic and parameter indices, in and out of range (generator of C04/C08); (20%) constant-rich programs (named consts and lets with constant-expression initialisers used as indices, range bounds/steps, match scrutinees, conditions; generator of C09); compiled for native and wasm, run natively and under node with the shipped runtime.js (fresh runtime per module, worker thread). Oracle: equal termination kind and equal value sequence (stdout split on white space; tokens with a fraction/exponent compared numerically, rel. tol. 1e-5). A compile failure or LinkError on either side puts the case outside the property (counted as discard). non-trivial = accepted and run on both sides with >= 6 printed values; distinct = hash of the program text",
		Gen:   c02Gen,
		New:   func() any { return &progCase{} },
		Check: c02Check,
		Assumptions: []string{
			"io::Print/Println line structure is not compared, only the sequence of values",
			"native prints floats with %g-style rounding; equality of float tokens is numeric with relative tolerance 1e-5",
		},
	})
}
