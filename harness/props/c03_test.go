package props

// C03 — statically ill-typed programs are rejected.
// A generated well-typed base program (accepted by `ferret -t`, checked) gets exactly one
// violation of one rule class of the catalogue injected at a generated site: either a
// self-contained ill-typed snippet inserted at a statement position (function, method,
// closure body, match arm, if/else, loop body, catch handler, nested), or a replacement of
// one expression at a typed position (call / method argument, struct-literal field, array
// element, return value, condition, logical / arithmetic operand, index, catch fallback,
// assignment, initialiser, append value, range bound).  The result must be rejected.

import (
	"fmt"
	"path/filepath"
	"strings"

	"compiler/verifharness/core"
	"compiler/verifharness/fer"
	"compiler/verifharness/sut"

	"pgregory.net/rapid"
)

type c03Case struct {
	Base    string `json:"base"`
	Variant string `json:"variant"`
	Rule    string `json:"rule"`
	Form    string `json:"form"`
	Site    string `json:"site"`
	Pos     string `json:"pos"`
	Discard string `json:"discard,omitempty"`
}

func (c *c03Case) Files() map[string]string {
	return map[string]string{"base/main.fer": c.Base, "variant/main.fer": c.Variant}
}

// fixed helpers appended to every base (they are part of the well-typed base)
const c03Helpers = `
type Zqs struct { .A: i32, .B: bool };

fn zqh(a: i32, b: bool) -> i32 {
    if b { return a; }
    return a + 1;
}

fn zqr(a: i32) -> str ! i32 {
    if a > 5 { return "big"!; }
    return a;
}

fn zqr0() -> str ! i32 {
    return 4;
}

fn zqrd(r: &i64) -> i64 {
    return r;
}

fn zqwr(r: &'i64) {
    r = 5;
}

fn zqrf(r: &f64) -> f64 {
    return r;
}

fn (z: &Zqs) Try() -> str ! i32 {
    if z.B { return "no"!; }
    return z.A;
}
`

type c03Snippet struct {
	rule, form string
	lines      func(c *fer.StmtSite) []string // nil = not applicable at this site
}

func c03Always(l ...string) func(*fer.StmtSite) []string {
	return func(*fer.StmtSite) []string { return l }
}

var c03Snippets = []c03Snippet{
	{"mixed_arithmetic", "i32+i64", c03Always("let zq1: i32 = 1;", "let zq2: i64 = 2;", "let zq3: i64 = zq1 + zq2;")},
	{"mixed_arithmetic", "u8*i8", c03Always("let zq1: u8 = 1;", "let zq2: i8 = 2;", "let zq3: i8 = zq2 * zq1;")},
	{"mixed_arithmetic", "i32-f64", c03Always("let zq1: i32 = 1;", "let zq2: f64 = 2.5;", "let zq3: f64 = zq2 - zq1;")},
	{"mixed_arithmetic", "u32%u64_in_condition", c03Always("let zq1: u32 = 7;", "let zq2: u64 = 2;", "if zq1 % zq2 == 1 { }")},
	{"mixed_arithmetic", "compound_assign", c03Always("let zq1: i16 = 1;", "let zq2: i64 = 2;", "zq1 += zq2;")},
	{"implicit_narrowing", "i64_to_i8", c03Always("let zq1: i64 = 300;", "let zq2: i8 = zq1;")},
	{"implicit_narrowing", "u32_to_i32", c03Always("let zq1: u32 = 3;", "let zq2: i32 = zq1;")},
	{"implicit_narrowing", "i128_to_i64_assign", c03Always("let zq1: i128 = 3;", "let zq2: i64 = 0;", "zq2 = zq1;")},
	{"implicit_narrowing", "f64_to_f32", c03Always("let zq1: f64 = 1.5;", "let zq2: f32 = zq1;")},
	{"float_to_int", "f64_var_to_i32", c03Always("let zq1: f64 = 1.5;", "let zq2: i32 = zq1;")},
	{"float_to_int", "float_literal_to_i64", c03Always("let zq2: i64 = 2.5;")},
	{"float_to_int", "call_argument", c03Always("let zq1: f32 = 1.5;", "let zq2: i32 = zqh(zq1, true);")},
	{"non_bool_condition", "if_int", c03Always("let zq1: i32 = 1;", "if zq1 { }")},
	{"non_bool_condition", "while_str", c03Always("let zq1: str = \"s\";", "while zq1 { break; }")},
	{"non_bool_condition", "else_if_int", c03Always("let zq1: i32 = 1;", "if zq1 > 5 { } else if zq1 { }")},
	{"non_bool_logical_operand", "and_int", c03Always("let zq1: i32 = 1;", "let zq2: bool = zq1 && true;")},
	{"non_bool_logical_operand", "or_str", c03Always("let zq1: str = \"s\";", "let zq2: bool = false || zq1;")},
	{"non_bool_logical_operand", "not_int", c03Always("let zq1: i32 = 1;", "let zq2: bool = !zq1;")},
	{"argument_count", "too_few", c03Always("let zq1: i32 = zqh(1);")},
	{"argument_count", "too_many", c03Always("let zq1: i32 = zqh(1, true, 3);")},
	{"argument_count", "none", c03Always("let zq1: i32 = zqh();")},
	{"argument_type", "swapped", c03Always("let zq1: i32 = zqh(true, 1);")},
	{"argument_type", "str_for_int", c03Always("let zq1: i32 = zqh(\"s\", true);")},
	{"argument_type", "i64_var_for_i32", c03Always("let zq0: i64 = 1;", "let zq1: i32 = zqh(zq0, true);")},
	{"argument_type", "struct_for_int", c03Always("let zq0: Zqs = {.A = 1, .B = true};", "let zq1: i32 = zqh(zq0, true);")},
	{"undefined_name", "variable", c03Always("let zq1: i32 = zq_nowhere + 1;")},
	{"undefined_name", "function", c03Always("let zq1: i32 = zq_nofn(1);")},
	{"undefined_name", "type", c03Always("let zq1: ZqNoType = 1;")},
	{"undefined_name", "assignment_target", c03Always("zq_nowhere = 1;")},
	{"redeclared_name", "same_block", c03Always("let zq1: i32 = 1;", "let zq1: i32 = 2;")},
	{"redeclared_name", "const_then_let", c03Always("const zq1: i32 = 1;", "let zq1: bool = true;")},
	{"wrong_return_value", "str_for_value", func(c *fer.StmtSite) []string {
		if c.RetT == nil || c.RetT.K == fer.KVoid || c.RetT.K == fer.KStr {
			return nil
		}
		return []string{"let zq0: bool = false;", "if zq0 { return \"s\"; }"}
	}},
	{"wrong_return_value", "value_in_void", func(c *fer.StmtSite) []string {
		if c.RetT != nil && c.RetT.K != fer.KVoid {
			return nil
		}
		return []string{"let zq0: bool = false;", "if zq0 { return 5; }"}
	}},
	{"missing_return_value", "bare_return", func(c *fer.StmtSite) []string {
		if c.RetT == nil || c.RetT.K == fer.KVoid {
			return nil
		}
		return []string{"let zq0: bool = false;", "if zq0 { return; }"}
	}},
	{"optional_as_value", "initialiser", c03Always("let zq1: i32? = none;", "let zq2: i32 = zq1;")},
	{"optional_as_value", "arithmetic", c03Always("let zq1: i32? = 4;", "let zq2: i32 = zq1 + 1;")},
	{"optional_as_value", "argument", c03Always("let zq1: i32? = 4;", "let zq2: i32 = zqh(zq1, true);")},
	{"optional_as_value", "condition", c03Always("let zq1: bool? = true;", "if zq1 { }")},
	{"struct_field", "unknown_read", c03Always("let zq1: Zqs = {.A = 1, .B = true};", "let zq2: i32 = zq1.C;")},
	{"struct_field", "unknown_write", c03Always("let zq1: Zqs = {.A = 1, .B = true};", "zq1.C = 3;")},
	{"struct_field", "missing_in_literal", c03Always("let zq1: Zqs = {.A = 1};")},
	{"struct_field", "unknown_in_literal", c03Always("let zq1: Zqs = {.A = 1, .B = true, .C = 3};")},
	{"struct_field", "mistyped_in_literal", c03Always("let zq1: Zqs = {.A = true, .B = true};")},
	{"struct_field", "mistyped_assignment", c03Always("let zq1: Zqs = {.A = 1, .B = true};", "zq1.B = 3;")},
	{"struct_field", "field_of_non_struct", c03Always("let zq1: i32 = 1;", "let zq2: i32 = zq1.A;")},
	{"too_many_initialisers", "let", c03Always("let zq1: [2]i32 = [1, 2, 3];")},
	{"too_many_initialisers", "assignment", c03Always("let zq1: [2]i32 = [1, 2];", "zq1 = [1, 2, 3];")},
	{"too_many_initialisers", "nested", c03Always("let zq1: [2][2]i32 = [[1, 2], [3, 4, 5]];")},
	{"call_non_function", "int_variable", c03Always("let zq1: i32 = 1;", "let zq2: i32 = zq1(2);")},
	{"call_non_function", "struct_value", c03Always("let zq1: Zqs = {.A = 1, .B = true};", "zq1();")},
	{"call_non_function", "call_result", c03Always("let zq2: i32 = zqh(1, true)(2);")},
	{"unhandled_result", "initialiser", c03Always("let zq1: i32 = zqr(1);")},
	{"unhandled_result", "arithmetic", c03Always("let zq1: i32 = zqr(1) + 1;")},
	{"unhandled_result", "argument", c03Always("let zq1: i32 = zqh(zqr(1), true);")},
	{"unhandled_result", "statement", c03Always("zqr(1);")},
	{"unhandled_result", "statement_no_arguments", c03Always("zqr0();")},
	{"unhandled_result", "inferred_let_no_arguments", c03Always("let zq1 := zqr0();")},
	{"unhandled_result", "inferred_let", c03Always("let zq1 := zqr(2);")},
	{"unhandled_result", "method_no_arguments", c03Always("let zq0: Zqs = {.A = 1, .B = false};", "zq0.Try();")},
	{"unhandled_result", "method_in_initialiser", c03Always("let zq0: Zqs = {.A = 1, .B = false};", "let zq1: i32 = zq0.Try();")},
	{"argument_type", "ref_to_i32_for_ref_to_i64", c03Always("let zq0: i32 = 7;", "let zq1: i64 = zqrd(&zq0);")},
	{"argument_type", "mut_ref_to_i32_for_mut_ref_to_i64", c03Always("let zq0: i32 = 7;", "zqwr(&'zq0);")},
	{"argument_type", "ref_to_i32_for_ref_to_f64", c03Always("let zq0: i32 = 7;", "let zq1: f64 = zqrf(&zq0);")},
	{"argument_type", "ref_to_field_for_ref_to_wider", c03Always("let zq0: Zqs = {.A = 1, .B = true};", "let zq1: i64 = zqrd(&zq0.A);")},
	{"argument_type", "ref_to_bool_for_ref_to_i64", c03Always("let zq0: bool = true;", "let zq1: i64 = zqrd(&zq0);")},
	{"argument_type", "ref_to_i128_for_ref_to_i64", c03Always("let zq0: i128 = 7;", "let zq1: i64 = zqrd(&zq0);")},
	{"argument_type", "value_for_ref", c03Always("let zq0: i64 = 7;", "let zq1: i64 = zqrd(zq0);")},
	{"implicit_narrowing", "ref_initialiser_to_wider_referent", c03Always("let zq0: i32 = 7;", "let zq1: &i64 = &zq0;")},
	{"float_to_int", "mixed_literal_expression", c03Always("let zq1: i32 = 1 + 2.5;")},
	{"float_to_int", "mixed_literal_expression_assignment", c03Always("let zq1: i64 = 1;", "zq1 = 2 * 1.5;")},
	{"error_return_in_non_result_function", "literal", func(c *fer.StmtSite) []string {
		if c.HasErr {
			return nil
		}
		return []string{"let zq0: bool = false;", "if zq0 { return \"e\"!; }"}
	}},
}

// incompatible replacement for a position that wants type t
func c03Clash(t *fer.Type, k int) (string, string) {
	switch t.K {
	case fer.KInt:
		switch k % 3 {
		case 0:
			return "\"zq\"", "str_for_int"
		case 1:
			return "true", "bool_for_int"
		}
		return "{.A = 1, .B = true}", "struct_for_int"
	case fer.KBool:
		if k%2 == 0 {
			return "7", "int_for_bool"
		}
		return "\"zq\"", "str_for_bool"
	case fer.KStr:
		if k%2 == 0 {
			return "7", "int_for_str"
		}
		return "true", "bool_for_str"
	}
	return "7", "int_for_" + t.String()
}

// a wider integer type whose values do not all fit t (the explicit widening cast itself is legal)
func c03Wider(t *fer.Type) *fer.Type {
	if t.K != fer.KInt || t.Byte {
		return nil
	}
	switch {
	case t.Bits < 64:
		return fer.IntT(64, t.Signed)
	case t.Bits == 64:
		return fer.IntT(128, t.Signed)
	case t.Bits == 128:
		return fer.IntT(256, t.Signed)
	}
	return nil
}

var c03PosRule = map[string]string{
	"call_arg": "argument_type", "method_arg": "argument_type", "struct_field": "struct_field", "return_value": "wrong_return_value",
	"cond": "non_bool_condition", "logic_operand": "non_bool_logical_operand", "arith_operand": "mixed_arithmetic",
	"let_init": "implicit_narrowing", "assign_rhs": "implicit_narrowing", "array_elem": "implicit_narrowing",
	"catch_fallback": "implicit_narrowing", "append_val": "implicit_narrowing",
}

func c03Gen(t *rapid.T, env *core.Env) any {
	cfg := fer.Config{Structs: true, Methods: true, Enums: true, Fixed: true, Dyn: true, Str: true, Refs: true, Closures: true, Results: true, Recursion: true, Narrow: true, MaxScen: 2, Use: env.Use}
	cfg.Wide = rapid.IntRange(0, 5).Draw(t, "wide") == 0
	p := fer.Generate(t, cfg)
	c := &c03Case{Base: p.Source() + c03Helpers}
	mode := rapid.IntRange(0, 9).Draw(t, "mode")
	switch {
	case mode < 5: // snippet insertion
		sn := c03Snippets[rapid.IntRange(0, len(c03Snippets)-1).Draw(t, "snippet")]
		var sites []*fer.StmtSite
		fer.Walk(p, nil, func(s *fer.StmtSite) []fer.Stmt {
			if sn.lines(s) != nil {
				// not after a final return / jump (statements after a return are a different error)
				sites = append(sites, s)
			}
			return nil
		})
		if len(sites) == 0 {
			c.Discard = "no applicable site"
			return c
		}
		// prefer deep sites: draw twice, keep the deeper
		a := rapid.IntRange(0, len(sites)-1).Draw(t, "site")
		b := rapid.IntRange(0, len(sites)-1).Draw(t, "site2")
		if len(sites[b].Chain) > len(sites[a].Chain) {
			a = b
		}
		n := 0
		q := fer.Walk(p, nil, func(s *fer.StmtSite) []fer.Stmt {
			if sn.lines(s) == nil {
				return nil
			}
			n++
			if n-1 != a {
				return nil
			}
			if s.Index == s.Len && s.Len > 0 {
				// appended after the last statement: fine unless that one is a jump; the walker cannot
				// see it here, so insert in front of the last statement instead (same block)
			}
			return []fer.Stmt{&fer.RawStmt{Lines: sn.lines(s)}}
		})
		c.Variant = q.Source() + c03Helpers
		c.Rule, c.Form, c.Site, c.Pos = sn.rule, sn.form, sites[a].ChainKey(), "statement"
	case mode < 8: // type clash at a typed expression position
		var sites []*fer.ExprSite
		fer.Walk(p, func(s *fer.ExprSite) fer.Expr {
			if _, ok := c03PosRule[s.Pos]; ok && s.Want != nil && s.SiblingTyped && (s.Want.K == fer.KInt || s.Want.K == fer.KBool || s.Want.K == fer.KStr) {
				sites = append(sites, s)
			}
			return nil
		}, nil)
		if len(sites) == 0 {
			c.Discard = "no applicable site"
			return c
		}
		a := rapid.IntRange(0, len(sites)-1).Draw(t, "site")
		k := rapid.IntRange(0, 5).Draw(t, "clash")
		n := 0
		form := ""
		q := fer.Walk(p, func(s *fer.ExprSite) fer.Expr {
			if _, ok := c03PosRule[s.Pos]; !(ok && s.Want != nil && s.SiblingTyped && (s.Want.K == fer.KInt || s.Want.K == fer.KBool || s.Want.K == fer.KStr)) {
				return nil
			}
			n++
			if n-1 != a {
				return nil
			}
			// integer positions: a legal widening cast of the original expression (implicit narrowing / mixed
			// types) or a float literal (float -> int); a value of an incompatible kind only where the
			// catalogue names the position (argument, struct field, return value, condition, logical operand)
			clashPos := s.Pos == "call_arg" || s.Pos == "method_arg" || s.Pos == "struct_field" || s.Pos == "return_value" || s.Pos == "cond" || s.Pos == "logic_operand"
			if w := c03Wider(s.Want); w != nil && (k >= 3 || !clashPos) {
				if k == 5 || (!clashPos && k%2 == 1) {
					form = "float_literal_for_" + s.Want.String()
					return &fer.RawExpr{T: s.Want, S: "2.5"}
				}
				form = "wider_" + w.String() + "_for_" + s.Want.String()
				return &fer.RawExpr{T: w, S: "(" + fer.Src(s.E) + " as " + w.String() + ")"}
			}
			if !clashPos {
				return nil
			}
			txt, f := c03Clash(s.Want, k)
			form = f
			return &fer.RawExpr{T: s.Want, S: txt}
		}, nil)
		c.Variant = q.Source() + c03Helpers
		c.Rule, c.Form, c.Site, c.Pos = c03PosRule[sites[a].Pos], form, sites[a].ChainKey(), sites[a].Pos
	default: // structural damage of one existing node
		type cand struct {
			s    *fer.ExprSite
			kind string
		}
		var sites []cand
		classify := func(s *fer.ExprSite) string {
			switch x := s.E.(type) {
			case *fer.Var:
				if x.T != nil && x.T.K != fer.KFn {
					return "undefined_name"
				}
			case *fer.Call:
				if len(x.Args) > 0 {
					return "argument_count"
				}
			case *fer.MethodCall:
				return "argument_count"
			case *fer.CatchCall:
				return "unhandled_result"
			case *fer.FieldX:
				return "struct_field"
			case *fer.StructLit:
				if len(x.Fields) > 1 {
					return "struct_field"
				}
			}
			return ""
		}
		fer.Walk(p, func(s *fer.ExprSite) fer.Expr {
			if s.Pos == "assign_lhs" || s.Pos == "deref" {
				return nil
			}
			if k := classify(s); k != "" {
				sites = append(sites, cand{s, k})
			}
			return nil
		}, nil)
		if len(sites) == 0 {
			c.Discard = "no applicable site"
			return c
		}
		a := rapid.IntRange(0, len(sites)-1).Draw(t, "site")
		v := rapid.IntRange(0, 2).Draw(t, "variant")
		n := 0
		form := ""
		q := fer.Walk(p, func(s *fer.ExprSite) fer.Expr {
			if s.Pos == "assign_lhs" || s.Pos == "deref" || classify(s) == "" {
				return nil
			}
			n++
			if n-1 != a {
				return nil
			}
			switch x := s.E.(type) {
			case *fer.Var:
				form = "renamed_variable"
				return &fer.RawExpr{T: x.T, S: x.Name + "_zqundef"}
			case *fer.Call:
				nc := *x
				if v == 0 {
					form = "dropped_last_argument"
					nc.Args = x.Args[:len(x.Args)-1]
				} else {
					form = "duplicated_argument"
					nc.Args = append(append([]fer.Expr(nil), x.Args...), x.Args[len(x.Args)-1])
				}
				return &nc
			case *fer.MethodCall:
				nc := *x
				if v == 0 && len(x.Args) > 0 {
					form = "dropped_last_argument"
					nc.Args = x.Args[:len(x.Args)-1]
				} else {
					form = "extra_argument"
					nc.Args = append(append([]fer.Expr(nil), x.Args...), &fer.RawExpr{S: "1"})
				}
				return &nc
			case *fer.CatchCall:
				form = "catch_removed"
				return x.Call
			case *fer.FieldX:
				form = "unknown_field"
				nf := *x
				nf.Name = x.Name + "zq"
				return &nf
			case *fer.StructLit:
				var parts []string
				for i, f := range x.Fields {
					if v == 0 && i == len(x.Fields)-1 {
						continue
					}
					parts = append(parts, "."+x.T.Fields[i].Name+" = "+fer.Src(f))
				}
				form = "missing_field_in_literal"
				if v != 0 {
					form = "unknown_field_in_literal"
					parts = append(parts, ".Zqx = 1")
				}
				return &fer.RawExpr{T: x.T, S: "({" + strings.Join(parts, ", ") + "} as " + x.T.Name + ")"}
			}
			return nil
		}, nil)
		c.Variant = q.Source() + c03Helpers
		c.Rule, c.Form, c.Site, c.Pos = sites[a].kind, form, sites[a].s.ChainKey(), sites[a].s.Pos
	}
	return c
}

func c03Check(env *core.Env, ci any) (res core.Result) {
	c := ci.(*c03Case)
	if c.Discard != "" {
		res.Discard = c.Discard
		return
	}
	tc := tcOf(env)
	dir := env.NextDir()
	res.Key = c.Rule + "|" + c.Form + "|" + c.Site + "|" + c.Pos
	bd := filepath.Join(dir, "base")
	sut.WriteProject(bd, map[string]string{"main.fer": c.Base})
	rb := tc.Compile(bd, sut.CompileOpts{TypeOnly: true})
	if rb.TimedOut || rb.Crash != "" {
		res.Discard = "compiler crash/hang (C13's matter)"
		return
	}
	if rb.Exit != 0 || len(rb.Errors()) > 0 {
		res.Discard = "base rejected (C01's matter)"
		return
	}
	if c.Variant == c.Base {
		res.Discard = "injection changed nothing"
		return
	}
	vd := filepath.Join(dir, "variant")
	sut.WriteProject(vd, map[string]string{"main.fer": c.Variant})
	rv := tc.Compile(vd, sut.CompileOpts{TypeOnly: true})
	if rv.TimedOut || rv.Crash != "" {
		res.Discard = "compiler crash/hang on the ill-typed program (C13's matter)"
		return
	}
	res.NonTrivial = true
	site := c.Site
	if i := strings.Index(site, ">"); i >= 0 && strings.Count(site, ">") > 2 {
		parts := strings.Split(site, ">")
		site = parts[0] + ">..>" + strings.Join(parts[len(parts)-2:], ">")
	}
	res.Labels = append(res.Labels, "rule:"+c.Rule, "pos:"+c.Pos, "site:"+site)
	if rv.Exit == 0 && len(rv.Errors()) == 0 {
		exe := filepath.Join(vd, "out.bin")
		rn := tc.Compile(vd, sut.CompileOpts{Out: exe})
		built := "the native build then fails: " + firstLines(rn.Out, 3)
		if rn.OK() && fileExists(exe) {
			built = "an executable is produced"
		}
		res.Violation = fmt.Sprintf("an ill-typed program is accepted by the type checker (rule=%s form=%s position=%s site=%s); %s\n--- diff base -> ill-typed ---\n%s\n--- ill-typed program ---\n%s", c.Rule, c.Form, c.Pos, c.Site, built, c14Diff(c.Base, c.Variant), c.Variant)
		res.VKey = "accepted:" + c.Rule + ":" + c.Form
		return
	}
	if es := rv.Errors(); len(es) > 0 {
		res.Sample = fmt.Sprintf("%q", fmt.Sprintf("[%s/%s at %s in %s] rejected: %s %s", c.Rule, c.Form, c.Pos, c.Site, es[0].Code, es[0].Msg))
	}
	return
}

func init() {
	core.Register(&core.Prop{
		ID: "C03",
		Rule: fmt.Sprintf("base = rapid-generated well-typed program (generator of C01 plus fixed helper declarations) that `ferret -t` accepts; exactly one violation is injected: (50%%) one of %d self-contained ill-typed snippets of the rule catalogue (mixed-type arithmetic, implicit narrowing, float->int, non-bool condition / logical operand, argument count / type, undefined / redeclared name, wrong / missing return value, optional used as value, unknown / missing / mistyped struct field, too many array initialisers, calling a non-function, unhandled result, error return in a non-result function) inserted at a generated statement position (any block of a function, method, closure, match arm, if / else, loop body, catch handler; deep positions preferred); (30%%) one expression at a typed position (call / method argument, struct-literal field, array element, return value, condition, logical / arithmetic operand, initialiser, assignment, index, catch fallback, append value, range bound) replaced by a value of an incompatible type or by a legal widening cast of itself; (20%%) one existing node damaged (variable renamed to an undefined name, argument dropped / duplicated, catch removed, field renamed, literal field dropped / added). Oracle: `ferret -t` reports an error (if it does not, a native build is attempted to show that an executable results). non-trivial = base accepted; distinct = (rule, form, enclosing-construct chain, position)", len(c03Snippets)),
		Gen:   c03Gen,
		New:   func() any { return &c03Case{} },
		Check: c03Check,
		Assumptions: []string{
			"an injected widening cast `(e as T)` is itself legal (the generator of C01 uses such casts); the error must come from using the wider value where the narrower type is required",
		},
	})
}
