package props

// C10 — integer literals are range-checked exactly and keep their value.
// Oracle: math/big.  Each case is a batch of literal lines; `ferret -t` must
// flag exactly the out-of-range ones (both directions), and the in-range ones,
// compiled natively and run, must print exactly their value.

import (
	"fmt"
	"math/big"
	"path/filepath"
	"strings"

	"compiler/verifharness/core"
	"compiler/verifharness/sut"

	"pgregory.net/rapid"
)

type c10Lit struct {
	T     string `json:"t"`
	Val   string `json:"val"`   // mathematical value, decimal
	Spell string `json:"spell"` // source spelling of the (possibly negated) literal
	Pos   string `json:"pos"`   // init | arg | ret | field | elem
	Base  int    `json:"base"`
}
type c10Case struct {
	Lits []c10Lit `json:"lits"`
}

var c10IntTypes = []string{"i8", "i16", "i32", "i64", "i128", "i256", "u8", "u16", "u32", "u64", "u128", "u256"}

func intRange(t string) (lo, hi *big.Int) {
	nt := numTypeByName(t)
	if nt.Signed {
		return new(big.Int).Neg(pow2(nt.Bits - 1)), new(big.Int).Sub(pow2(nt.Bits-1), big1)
	}
	return big.NewInt(0), new(big.Int).Sub(pow2(nt.Bits), big1)
}

func c10GenValue(t *rapid.T, ty string) *big.Int {
	lo, hi := intRange(ty)
	bits := numTypeByName(ty).Bits
	switch rapid.IntRange(0, 9).Draw(t, "vkind") {
	case 0, 1, 2: // around the boundaries
		base := []*big.Int{lo, hi, big.NewInt(0)}[rapid.IntRange(0, 2).Draw(t, "bnd")]
		return new(big.Int).Add(base, big.NewInt(rapid.Int64Range(-2, 2).Draw(t, "delta")))
	case 3: // 2^k + d at limb boundaries and elsewhere
		k := rapid.OneOf(rapid.SampledFrom([]int{7, 8, 15, 16, 31, 32, 63, 64, 127, 128, 255, 256}), rapid.IntRange(0, 300)).Draw(t, "k")
		v := new(big.Int).Add(pow2(k), big.NewInt(rapid.Int64Range(-1, 1).Draw(t, "d")))
		if rapid.Bool().Draw(t, "neg") {
			v.Neg(v)
		}
		return v
	case 4: // the boundaries of the *other* signedness / neighbouring widths
		o := rapid.SampledFrom(c10IntTypes).Draw(t, "other")
		olo, ohi := intRange(o)
		b := []*big.Int{olo, ohi}[rapid.IntRange(0, 1).Draw(t, "which")]
		return new(big.Int).Add(b, big.NewInt(rapid.Int64Range(-1, 1).Draw(t, "delta")))
	case 5: // small
		return big.NewInt(rapid.Int64Range(-300, 300).Draw(t, "small"))
	default: // uniform over a bit length up to a bit beyond the type (and sometimes far beyond)
		maxBits := bits + 2
		if rapid.IntRange(0, 9).Draw(t, "far") == 0 {
			maxBits = 300
		}
		nb := rapid.IntRange(1, maxBits).Draw(t, "nbits")
		v := new(big.Int)
		for i := 0; i < (nb+31)/32; i++ {
			v.Lsh(v, 32)
			v.Or(v, new(big.Int).SetUint64(uint64(rapid.Uint32().Draw(t, "w"))))
		}
		v.Mod(v, pow2(nb))
		v.SetBit(v, nb-1, 1)
		if rapid.IntRange(0, 2).Draw(t, "neg") == 0 {
			v.Neg(v)
		}
		return v
	}
}

func c10Spell(t *rapid.T, v *big.Int) (string, int) {
	mag := new(big.Int).Abs(v)
	base := rapid.SampledFrom([]int{10, 10, 16, 8, 2}).Draw(t, "base")
	digits := mag.Text(base)
	if base == 16 && rapid.Bool().Draw(t, "upperdigits") {
		digits = strings.ToUpper(digits)
	}
	// (leading zeros also on decimal literals: `0755` is decimal 755, octal is spelled 0o755)
	if rapid.IntRange(0, 3).Draw(t, "lead0") == 0 {
		digits = strings.Repeat("0", rapid.IntRange(1, 3).Draw(t, "nlead")) + digits
	}
	if len(digits) > 1 && rapid.IntRange(0, 2).Draw(t, "sep") == 0 {
		// single underscores between digits
		var b strings.Builder
		for i, ch := range digits {
			if i > 0 && rapid.IntRange(0, 3).Draw(t, "us") == 0 {
				b.WriteByte('_')
			}
			b.WriteRune(ch)
		}
		digits = b.String()
	}
	prefix := ""
	switch base {
	case 16:
		prefix = rapid.SampledFrom([]string{"0x", "0x", "0X"}).Draw(t, "px")
	case 8:
		prefix = rapid.SampledFrom([]string{"0o", "0o", "0O"}).Draw(t, "po")
	case 2:
		prefix = rapid.SampledFrom([]string{"0b", "0b", "0B"}).Draw(t, "pb")
	}
	lit := prefix + digits
	if v.Sign() < 0 {
		switch rapid.IntRange(0, 3).Draw(t, "negform") {
		case 0:
			return "- " + lit, base
		case 1:
			return "-(" + lit + ")", base
		default:
			return "-" + lit, base
		}
	}
	if rapid.IntRange(0, 7).Draw(t, "paren") == 0 {
		return "(" + lit + ")", base
	}
	return lit, base
}

func c10Gen(t *rapid.T, env *core.Env) any {
	n := rapid.IntRange(6, 40).Draw(t, "n")
	c := &c10Case{}
	for i := 0; i < n; i++ {
		ty := rapid.SampledFrom(c10IntTypes).Draw(t, "type")
		v := c10GenValue(t, ty)
		sp, base := c10Spell(t, v)
		// Known finding: -(2^255) written with the minus separated from the digits (`- lit`, `-(lit)`):
		// the magnitude fits no integer type and stays "untyped". Excluded by construction.
		if v.Sign() < 0 && new(big.Int).Abs(v).Cmp(pow2(255)) == 0 && !strings.HasPrefix(sp, "-0") && !strings.HasPrefix(sp, "-5") {
			if !env.Use("c10.i256_min_split_negation") {
				sp = "-" + strings.TrimSuffix(strings.TrimPrefix(strings.TrimPrefix(strings.TrimPrefix(sp, "-"), " "), "("), ")")
			}
		}
		c.Lits = append(c.Lits, c10Lit{T: ty, Val: v.String(), Spell: sp, Base: base,
			Pos: rapid.SampledFrom([]string{"init", "arg", "ret", "init", "field", "elem"}).Draw(t, "pos")})
	}
	return c
}

func (l c10Lit) render(i int) (decls []string, call string) {
	id := fmt.Sprint(i)
	switch l.Pos {
	case "init":
		decls = []string{"fn t" + id + "() { let v: " + l.T + " = " + l.Spell + "; io::Println(v); }"}
	case "arg":
		decls = []string{"fn id" + id + "(v: " + l.T + ") -> " + l.T + " { return v; }", "fn t" + id + "() { io::Println(id" + id + "(" + l.Spell + ")); }"}
	case "ret":
		decls = []string{"fn r" + id + "() -> " + l.T + " { return " + l.Spell + "; }", "fn t" + id + "() { io::Println(r" + id + "()); }"}
	case "field":
		decls = []string{"type W" + id + " struct { .F: " + l.T + " };", "fn t" + id + "() { let w: W" + id + " = {.F = " + l.Spell + "}; io::Println(w.F); }"}
	case "elem":
		decls = []string{"fn t" + id + "() { let a: [2]" + l.T + " = [" + l.Spell + ", 0]; io::Println(a[0]); }"}
	}
	return decls, "t" + id + "();"
}

func c10Program(lits []c10Lit, include []bool) (string, []int, []int) {
	var b strings.Builder
	b.WriteString("import \"std/io\";\n")
	owner := []int{-1, -1}
	var order []int
	var calls []string
	for i, l := range lits {
		if !include[i] {
			continue
		}
		decls, call := l.render(i)
		for _, d := range decls {
			b.WriteString(d + "\n")
			owner = append(owner, i)
		}
		calls = append(calls, call)
		order = append(order, i)
	}
	b.WriteString("fn main() {\n")
	owner = append(owner, -1)
	for k, c := range calls {
		b.WriteString("    " + c + "\n")
		owner = append(owner, order[k])
	}
	b.WriteString("}\n")
	owner = append(owner, -1)
	return b.String(), owner, order
}

func c10Check(env *core.Env, ci any) (res core.Result) {
	c := ci.(*c10Case)
	tc := tcOf(env)
	n := len(c.Lits)
	inRange := make([]bool, n)
	vals := make([]*big.Int, n)
	for i, l := range c.Lits {
		v, _ := new(big.Int).SetString(l.Val, 10)
		vals[i] = v
		lo, hi := intRange(l.T)
		inRange[i] = v.Cmp(lo) >= 0 && v.Cmp(hi) <= 0
	}
	include := make([]bool, n)
	for i := range include {
		include[i] = true
	}
	rejected := make([]bool, n)
	rejMsg := make([]string, n)
	attribute := func(r *sut.CompileResult, owner []int) (bool, string) {
		progress := false
		for _, d := range r.Errors() {
			if !d.HasLoc || d.Line <= 0 || d.Line >= len(owner) || owner[d.Line] < 0 {
				return false, "error not attributable to a literal line: " + d.Msg
			}
			i := owner[d.Line]
			if include[i] {
				include[i] = false
				rejected[i] = true
				rejMsg[i] = d.Msg
				progress = true
			}
		}
		if !progress {
			return false, "compilation failed without attributable errors:\n" + firstLines(r.Out, 12)
		}
		return true, ""
	}
	// phase 1: type check all lines (repeat until the remaining set is accepted as a whole)
	for round := 0; ; round++ {
		text, owner, _ := c10Program(c.Lits, include)
		dir := env.NextDir()
		sut.WriteProject(dir, map[string]string{"main.fer": text})
		r := tc.Compile(dir, sut.CompileOpts{TypeOnly: true})
		if r.Crash != "" || r.TimedOut {
			res.Discard = "compiler crash/timeout (C13's matter): " + r.Crash
			return
		}
		if r.Exit == 0 && len(r.Errors()) == 0 {
			break
		}
		if ok, why := attribute(r, owner); !ok || round > 4 {
			res.Discard = why
			return
		}
	}
	// phase 2: build and run the accepted lines
	var stdout []string
	var order []int
	anyAccepted := false
	for i := range include {
		anyAccepted = anyAccepted || include[i]
	}
	if anyAccepted {
		for round := 0; ; round++ {
			text, owner, ord := c10Program(c.Lits, include)
			dir := env.NextDir()
			sut.WriteProject(dir, map[string]string{"main.fer": text})
			exe := filepath.Join(dir, "out")
			r := tc.Compile(dir, sut.CompileOpts{Out: exe})
			if r.Crash != "" || r.TimedOut {
				res.Discard = "compiler crash/timeout in code generation (C13's matter): " + r.Crash
				return
			}
			if r.Exit == 0 && len(r.Errors()) == 0 {
				run := sut.RunNative(exe, 0)
				if run.Term() != "ok" {
					res.Violation = fmt.Sprintf("program made only of accepted in-range literals terminated with %s\nstderr: %s\nprogram:\n%s", run.Term(), firstLines(run.Stderr, 5), text)
					res.VKey = "run_failed"
					return
				}
				stdout = strings.Split(strings.TrimRight(run.Stdout, "\n"), "\n")
				order = ord
				break
			}
			if ok, why := attribute(r, owner); !ok || round > 4 {
				res.Discard = why
				return
			}
		}
	}
	// verdicts
	nt := 0
	for i, l := range c.Lits {
		lo, hi := intRange(l.T)
		near := false
		for _, b := range []*big.Int{lo, hi} {
			d := new(big.Int).Sub(vals[i], b)
			if d.Abs(d).Cmp(big.NewInt(2)) <= 0 {
				near = true
			}
		}
		isNT := near || l.Base != 10 || vals[i].BitLen() >= 65
		if isNT {
			nt++
		}
		res.Sub = append(res.Sub, core.SubEval{Key: l.T + " " + l.Spell + " " + l.Pos, NonTrivial: isNT,
			Sample: fmt.Sprintf(`{"type":"%s","value":"%s","spelling":"%s","position":"%s","in_range":%v}`, l.T, l.Val, l.Spell, l.Pos, inRange[i])})
		env.Stats.Label("pos:" + l.Pos)
		if inRange[i] {
			env.Stats.Label("in_range")
		} else {
			env.Stats.Label("out_of_range")
		}
		if near {
			env.Stats.Label("near_boundary")
		}
	}
	for i, l := range c.Lits {
		if rejected[i] && inRange[i] {
			key := "in_range_rejected"
			if vals[i].Sign() < 0 && new(big.Int).Abs(vals[i]).Cmp(pow2(255)) == 0 && (strings.HasPrefix(l.Spell, "- ") || strings.HasPrefix(l.Spell, "-(")) {
				key = "i256_min_split_negation"
			}
			if env.Known.IsKnown("C10", key) {
				env.Stats.Label("known_hit:" + key)
				continue
			}
			res.Violation = fmt.Sprintf("literal `%s` (value %s) lies in the range of %s but is rejected at position %s: %s", l.Spell, l.Val, l.T, l.Pos, rejMsg[i])
			res.VKey = key
			return
		}
		if !rejected[i] && !inRange[i] {
			res.Violation = fmt.Sprintf("literal `%s` (value %s) lies outside the range of %s but is accepted at position %s (program compiled and ran)", l.Spell, l.Val, l.T, l.Pos)
			res.VKey = "out_of_range_accepted"
			return
		}
	}
	if len(stdout) != len(order) && anyAccepted {
		res.Violation = fmt.Sprintf("expected %d output lines, got %d:\n%s", len(order), len(stdout), strings.Join(stdout, "\n"))
		res.VKey = "output_count"
		return
	}
	for k, i := range order {
		if stdout[k] != vals[i].String() {
			l := c.Lits[i]
			res.Violation = fmt.Sprintf("literal `%s` of type %s at position %s: program observes %s, mathematical value is %s", l.Spell, l.T, l.Pos, stdout[k], l.Val)
			res.VKey = "wrong_value"
			return
		}
	}
	// the same accepted literals on the wasm target (types up to 64 bits, positions the wasm back end supports)
	winc := make([]bool, n)
	nw := 0
	for i, l := range c.Lits {
		if include[i] && !strings.Contains(l.T, "128") && !strings.Contains(l.T, "256") && (l.Pos == "init" || l.Pos == "arg" || l.Pos == "ret") {
			winc[i] = true
			nw++
		}
	}
	if nw > 0 {
		text, _, ord := c10Program(c.Lits, winc)
		dir := env.NextDir()
		sut.WriteProject(dir, map[string]string{"main.fer": text})
		wp := filepath.Join(dir, "out.wasm")
		r := tc.Compile(dir, sut.CompileOpts{Target: "wasm", Out: wp})
		if r.Crash == "" && !r.TimedOut && r.Exit == 0 && len(r.Errors()) == 0 && fileExists(wp) {
			if wr, err := wasmRunner(env); err == nil {
				if w, err := wr.Run(wp); err == nil && w.Status == "ok" {
					env.Stats.Label("wasm_values_checked")
					for k, i := range ord {
						got := "<missing>"
						if k < len(w.Lines) {
							got = w.Lines[k]
						}
						if got != vals[i].String() {
							l := c.Lits[i]
							res.Violation = fmt.Sprintf("literal `%s` of type %s at position %s: the wasm module observes %s, mathematical value is %s\nprogram:\n%s", l.Spell, l.T, l.Pos, got, l.Val, text)
							res.VKey = "wrong_value:wasm"
							return
						}
					}
				} else if err == nil && w.Status != "ok" {
					env.Stats.Label("wasm_not_run:" + w.Status)
				}
			}
		} else {
			env.Stats.Label("wasm_not_compiled")
		}
	}
	return
}

func init() {
	core.Register(&core.Prop{
		ID:    "C10",
		Rule:  "rapid-generated batches of 6-40 integer literals: type in the 12 integer types x value (range boundaries +-2, boundaries of other types +-1, 2^k+-1 up to k=300, small, uniform by bit length up to width+2 and sometimes 300 bits) x spelling (decimal/0x/0o/0b, upper/lower-case prefix and digits, single underscores between digits, leading zeros (after a prefix and on plain decimal literals), negation as -lit, '- lit', -(lit), parenthesised) x position (let initialiser, call argument, return value, struct field initialiser, fixed-array element). Oracle math/big: the set of lines `ferret -t` rejects must equal the out-of-range set exactly, and the accepted lines, compiled natively and run, must print their exact decimal value; those of at most 64 bits in initialiser / argument / return position must print it on the wasm target as well. non-trivial = within 2 of a range boundary, or non-decimal, or >= 65 bits; distinct = (type, spelling, position)",
		Gen:   c10Gen,
		New:   func() any { return &c10Case{} },
		Check: c10Check,
		Assumptions: []string{
			"a decimal literal with leading zeros denotes its decimal value (the range check of the type checker says so; octal has the 0o prefix)",
			"a literal counts as accepted only when a whole compilation containing it succeeds",
			"values are observed through io::Println",
		},
	})
}
