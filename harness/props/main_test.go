package props

import (
	"encoding/json"
	"fmt"
	"os"
	"path/filepath"
	"sort"
	"strings"
	"testing"

	"compiler/verifharness/core"
	"compiler/verifharness/sut"

	"pgregory.net/rapid"
)

var env *core.Env

func TestMain(m *testing.M) {
	env = core.EnvFromOS()
	os.MkdirAll(env.Scratch, 0o755)
	code := m.Run()
	if p := os.Getenv("VERIF_STATS"); p != "" {
		req := 0
		fmt.Sscan(os.Getenv("VERIF_REQUESTED"), &req)
		if err := env.Stats.Flush(p, exhaustiveDone, req); err != nil {
			fmt.Fprintln(os.Stderr, "stats flush:", err)
			code = 3
		}
	}
	closeResources()
	os.Exit(code)
}

var exhaustiveDone bool

func evalCase(p *core.Prop, c any) core.Result {
	r := p.Check(env, c)
	if r.Key == "" {
		b, _ := json.Marshal(c)
		r.Key = string(b)
	}
	if r.Sample == "" && r.NonTrivial {
		b, _ := json.Marshal(c)
		if len(b) > 1500 {
			b = append(b[:1500], []byte("...")...)
		}
		r.Sample = string(b)
	}
	return r
}

// TestCampaign runs the property selected by VERIF_PROP: first the exhaustive
// part (partitioned over shards), then the rapid campaign.
func TestCampaign(t *testing.T) {
	p := core.Lookup(os.Getenv("VERIF_PROP"))
	if p == nil {
		t.Skip("VERIF_PROP not set")
	}
	env.Stats.Extra["rule"] = p.Rule
	env.Stats.Extra["assumptions"] = p.Assumptions
	faildir := os.Getenv("VERIF_FAILDIR")
	nsh := 1
	fmt.Sscan(os.Getenv("VERIF_NSHARDS"), &nsh)
	if nsh < 1 {
		nsh = 1
	}
	fail := func(c any, r core.Result) {
		if faildir != "" {
			os.RemoveAll(faildir)
			core.SaveCase(faildir, p.ID, c, r)
		}
	}
	if p.Exhaustive != nil {
		cases := p.Exhaustive(env)
		for i, c := range cases {
			if i%nsh != env.Shard {
				continue
			}
			r := evalCase(p, c)
			env.Stats.Record(r)
			if r.Violation != "" {
				r = confirm(p, c, r)
			}
			if r.Violation != "" {
				if env.Known.IsKnown(p.ID, r.VKey) {
					env.Stats.Label("known_hit:" + r.VKey)
					continue
				}
				if os.Getenv("VERIF_SURVEY") == "1" {
					env.Stats.Label("viol:" + r.VKey)
					d := filepath.Join(os.Getenv("VERIF_SURVEY_DIR"), sanitize(r.VKey))
					if !fileExists(d) {
						core.SaveCase(d, p.ID, c, r)
					}
					if f, err := os.OpenFile(filepath.Join(os.Getenv("VERIF_SURVEY_DIR"), "all.txt"), os.O_APPEND|os.O_CREATE|os.O_WRONLY, 0o644); err == nil {
						fmt.Fprintf(f, "%s\t%s\n", r.VKey, r.Key)
						f.Close()
					}
					continue
				}
				fail(c, r)
				t.Fatalf("exhaustive case %d: %s", i, r.Violation)
			}
		}
		exhaustiveDone = true
	}
	if p.Gen == nil {
		return
	}
	rapid.Check(t, func(rt *rapid.T) {
		c := p.Gen(rt, env)
		r := evalCase(p, c)
		env.Stats.Record(r)
		if r.Violation != "" {
			r = confirm(p, c, r)
		}
		if r.Violation != "" {
			if env.Known.IsKnown(p.ID, r.VKey) {
				env.Stats.Label("known_hit:" + r.VKey)
				return
			}
			if os.Getenv("VERIF_SURVEY") == "1" {
				// survey mode (development aid): record every distinct violation key, keep going
				env.Stats.Label("viol:" + r.VKey)
				d := filepath.Join(os.Getenv("VERIF_SURVEY_DIR"), sanitize(r.VKey))
				if !fileExists(d) {
					core.SaveCase(d, p.ID, c, r)
				}
				return
			}
			fail(c, r)
			rt.Fatalf("%s", r.Violation)
		}
	})
}

// TestReplay re-decides saved cases (VERIF_REPLAY = colon separated dirs)
// without rapid.  Prints one line per case:
//
//	REPLAY <dir> <expect> <outcome> <vkey> :: <what>
func TestReplay(t *testing.T) {
	dirs := os.Getenv("VERIF_REPLAY")
	if dirs == "" {
		t.Skip("VERIF_REPLAY not set")
	}
	// saved cases are decided on their own: known-finding suppression is off, real CLI only
	env.Known = &core.Known{}
	env.NoServer = true
	for _, d := range strings.Split(dirs, ":") {
		s, err := core.LoadCase(d)
		if err != nil {
			fmt.Printf("REPLAY %s pass infra - :: cannot load: %v\n", d, err)
			continue
		}
		p := core.Lookup(s.Property)
		if p == nil {
			fmt.Printf("REPLAY %s pass infra - :: unknown property %s\n", d, s.Property)
			continue
		}
		c := p.New()
		if err := json.Unmarshal(s.Case, c); err != nil {
			fmt.Printf("REPLAY %s pass infra - :: bad case: %v\n", d, err)
			continue
		}
		expect := s.Expect
		if expect == "" {
			expect = "pass"
			if strings.HasPrefix(filepath.Base(d), "known-") {
				expect = "fail"
			}
		}
		if f := os.Getenv("VERIF_REPLAY_FORCE"); f != "" {
			expect = f
		}
		r := p.Check(env, c)
		outcome := "pass"
		what := s.Note
		vk := "-"
		if r.Infra != "" {
			outcome = "infra"
			what = r.Infra
		} else if r.Violation != "" {
			outcome = "fail"
			if r.VKey != "" {
				vk = r.VKey
			}
			if what == "" || expect == "pass" {
				what = oneLine(r.Violation)
			}
			if expect == "fail" && s.VKey != "" && r.VKey != s.VKey {
				// a known case failing in a different way is a new violation
				expect = "pass"
				what = fmt.Sprintf("known case now fails differently (was %s): %s", s.VKey, oneLine(r.Violation))
			}
		}
		fmt.Printf("REPLAY %s %s %s %s :: %s\n", d, expect, outcome, vk, what)
	}
}

func oneLine(s string) string {
	s = strings.ReplaceAll(s, "\n", " | ")
	if len(s) > 400 {
		s = s[:400] + "..."
	}
	return s
}

// tcOf returns the toolchain handle; a persistent compile server is attached
// unless the run is a confirmation/replay run (env.NoServer) or VERIF_NOSERVER=1.
func tcOf(env *core.Env) sut.Toolchain {
	tc := sut.Toolchain{Dir: env.Toolchain}
	if env.NoServer || os.Getenv("VERIF_NOSERVER") == "1" {
		return tc
	}
	if os.Getenv("VERIF_INPROC") == "1" {
		tc.InProc = inprocCompile
		return tc
	}
	v, err := env.Resource("ferretd", func() (any, error) {
		s := sut.NewServer(tc)
		closers = append(closers, s.Close)
		return s, nil
	})
	if err == nil {
		tc.Server = v.(*sut.Server)
	}
	return tc
}

// confirm re-decides a violating case through the real CLI only; a violation is
// reported only if it reproduces there.
func confirm(p *core.Prop, c any, r core.Result) core.Result {
	if p.NoConfirm || env.NoServer || os.Getenv("VERIF_NOSERVER") == "1" {
		return r
	}
	env.NoServer = true
	defer func() { env.NoServer = false }()
	r2 := p.Check(env, c)
	if r2.Violation == "" {
		env.Stats.Label("server_only_divergence")
	}
	return r2
}

var closers []func()

func closeResources() {
	for _, f := range closers {
		f()
	}
}

func fileExists(p string) bool {
	_, err := os.Stat(p)
	return err == nil
}

func sanitize(s string) string {
	var b strings.Builder
	for _, r := range s {
		if r >= 'a' && r <= 'z' || r >= 'A' && r <= 'Z' || r >= '0' && r <= '9' || r == '.' || r == '-' || r == '_' {
			b.WriteRune(r)
		} else {
			b.WriteByte('_')
		}
	}
	if b.Len() > 100 {
		return b.String()[:100]
	}
	return b.String()
}

// TestReduce (development aid): line-based delta debugging of a saved program case
// (VERIF_REDUCE=<case dir>) that keeps the violation key; only meaningful for
// violations that need no expected output (rejections, crashes).
func TestReduce(t *testing.T) {
	dir := os.Getenv("VERIF_REDUCE")
	if dir == "" {
		t.Skip()
	}
	s, err := core.LoadCase(dir)
	if err != nil {
		t.Fatal(err)
	}
	p := core.Lookup(s.Property)
	env.Known = &core.Known{}
	var c progCase
	json.Unmarshal(s.Case, &c)
	want := s.VKey
	if os.Getenv("VERIF_REDUCE_KEY") != "" {
		want = os.Getenv("VERIF_REDUCE_KEY")
	}
	fails := func(src string) bool {
		cc := c
		cc.Src = src
		r := p.Check(env, &cc)
		return r.VKey == want
	}
	lines := strings.Split(c.Src, "\n")
	if !fails(c.Src) {
		t.Fatalf("case does not fail with key %q", want)
	}
	// candidates: brace-balanced blocks (a line ending in "{" up to its matching "}"), then single lines; repeat to a fixpoint
	for changed := true; changed; {
		changed = false
		type rng struct{ a, b int }
		var cands []rng
		var stack []int
		for i, ln := range lines {
			tr := strings.TrimSpace(ln)
			opens := strings.Count(tr, "{") - strings.Count(tr, "}")
			if opens > 0 && strings.HasSuffix(tr, "{") {
				stack = append(stack, i)
			} else if opens < 0 && len(stack) > 0 {
				a := stack[len(stack)-1]
				stack = stack[:len(stack)-1]
				cands = append(cands, rng{a, i})
			}
			cands = append(cands, rng{i, i})
		}
		sort.Slice(cands, func(x, y int) bool { return cands[x].b-cands[x].a > cands[y].b-cands[y].a })
		removedLines := map[int]bool{}
		for _, c := range cands {
			skip := false
			for k := c.a; k <= c.b; k++ {
				if removedLines[k] {
					skip = true
				}
			}
			if skip {
				continue
			}
			var cand []string
			for k, ln := range lines {
				if !removedLines[k] && (k < c.a || k > c.b) {
					cand = append(cand, ln)
				}
			}
			if fails(strings.Join(cand, "\n")) {
				for k := c.a; k <= c.b; k++ {
					removedLines[k] = true
				}
				changed = true
			}
		}
		var kept []string
		for k, ln := range lines {
			if !removedLines[k] {
				kept = append(kept, ln)
			}
		}
		lines = kept
	}
	fmt.Println("REDUCED:\n" + strings.Join(lines, "\n"))
}
