package props

// C04 — fixed-size array accesses are in bounds and hit the indexed element.
// C08 — dynamic arrays and strings are bounds-checked at run time, not mis-rejected.
// Both use the indexing generator of package fer and the reference interpreter, which
// knows the value every index expression has at the moment of execution.

import (
	"fmt"
	"os"
	"strings"

	"compiler/verifharness/core"
	"compiler/verifharness/fer"

	"pgregory.net/rapid"
)

func indexingGen(kind string) func(t *rapid.T, env *core.Env) any {
	return func(t *rapid.T, env *core.Env) any {
		k := kind
		if kind == "dyn" && rapid.IntRange(0, 3).Draw(t, "str") == 0 {
			k = "str"
		}
		p := fer.GenerateIndexing(t, k, env.Use)
		out := fer.Run(p)
		c := &progCase{Src: p.Source(), Expect: out.Lines, Term: out.Term, Features: p.Features,
			Stats: map[string]int{"steps": out.Steps, "calls": out.Calls, "loop_iters": out.LoopIters}}
		if out.Err != "" {
			c.Discard = "model: " + out.Err
		}
		return c
	}
}

// indexingCheck: mayReject says whether a compile-time rejection is always allowed (C04) or only
// when some execution indexes out of range (C08).
func indexingCheck(prop string, rejectAlwaysAllowed bool) func(env *core.Env, ci any) core.Result {
	return func(env *core.Env, ci any) core.Result {
		c := ci.(*progCase)
		r := runNativeDiff(env, c, prop)
		r.Key = c.Src
		nonLiteral := false
		for f := range c.Features {
			if strings.HasPrefix(f, "index.") && f != "index.literal" {
				nonLiteral = true
			}
		}
		if c.Term == "panic" {
			r.Labels = append(r.Labels, "execution_indexes_out_of_range")
		}
		if strings.HasPrefix(r.VKey, "rejected") {
			// rejected at compile time
			if d := os.Getenv("VERIF_IDX_DUMP"); d != "" && strings.Contains(r.VKey, os.Getenv("VERIF_IDX_DUMP_KEY")) {
				os.WriteFile(d, []byte(c.Src+"\n/*\n"+r.Violation[:min(len(r.Violation), 1500)]+"\n*/\n"), 0o644)
			}
			if rejectAlwaysAllowed || c.Term == "panic" {
				r.Labels = append(r.Labels, "rejected_at_compile_time", "rej:"+r.VKey)
				r.Violation, r.VKey = "", ""
				r.Discard = "rejected at compile time (allowed)"
				return r
			}
			r.VKey = "valid_index_rejected"
			r.Violation = "every index of this program is valid at the moment of execution, yet the compiler rejects it\n" + r.Violation
			return r
		}
		if r.Violation == "" {
			r.NonTrivial = nonLiteral
			if prop == "C08" {
				r.NonTrivial = c.Features["dyn.append"] > 0 || c.Term == "panic"
			}
			if r.NonTrivial {
				s := c.Src
				if i := strings.Index(s, "fn s0()"); i >= 0 {
					s = s[i:]
				}
				r.Sample = fmt.Sprintf("%q", s)
			}
		}
		return r
	}
}

func init() {
	core.Register(&core.Prop{
		ID:          "C04",
		Rule:        "rapid-generated programs over one fixed array [N]T (N 1..6, T in i32/i64/u8/i16/u64) with two canary variables declared around it; 3-10 statements among: reads and writes (=, +=, -=) through an index that is a literal (also negative / just out of range), a const, a never-reassigned let, a let reassigned before or after the access or only in a branch, arithmetic on those, a for-range loop variable, or a parameter of a helper function; function literals that read or write arr[wj] through a captured variable wj of type i32 / i64 / u32 / u64 / i128 / u128 that is reassigned afterwards (in range, or 2^31 / 2^32 away, or in the all-ones region of its type); copies of the array with writes to the copy; finally a dump of all elements, the canaries and the index variable. Oracle: reference interpreter (index value at the moment of execution, negative values from the end, panic outside [-N, N)); a compile-time rejection is allowed (counted), an accepted program must print exactly the interpreter's lines and panic exactly when it does. non-trivial = accepted and at least one index is not a literal; distinct = program text",
		Gen:         indexingGen("fixed"),
		New:         func() any { return &progCase{} },
		Check:       indexingCheck("C04", true),
		Assumptions: []string{"compile-time rejection of any of these programs is allowed by the property (documented rule: indices must be compile-time constants)"},
	})
	core.Register(&core.Prop{
		ID:          "C08",
		Rule:        "rapid-generated histories over one dynamic array (literal of 1..6 elements, appends interleaved with accesses) or one string (a quarter of the cases): reads/writes through literal, const, let (reassigned before/after/in a branch), arithmetic, loop-carried and parameter indices in [-len-2, len+1], a print before every access, final dump of all elements, length and canaries. Oracle: reference interpreter over an abstract list: valid index for the current length => accepted and the stored element printed; invalid => lines printed so far, then 'index out of bounds' panic with non-zero status; a compile-time rejection is legitimate only if some execution indexes out of range. non-trivial = an append precedes an access or an out-of-range access occurs; distinct = program text",
		Gen:         indexingGen("dyn"),
		New:         func() any { return &progCase{} },
		Check:       indexingCheck("C08", false),
		Assumptions: []string{"string elements are bytes printed as characters (ASCII strings only)"},
	})
}
