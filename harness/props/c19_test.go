package props

// C19 — layout of the source text does not change meaning; diagnostics follow the text.
//
// Metamorphic check: a base text (generated well-typed program, repository program,
// or one of those damaged so that it is rejected) and a variant that differs only by
// trivia inserted into gaps between lexical tokens.  The variant must be accepted
// exactly when the base is, print the same, carry the same diagnostics, and every
// diagnostic must sit on the same token: its line:column is recomputed by the harness
// from the variant text with its own lexer and position rule.

import (
	"bytes"
	"fmt"
	"os"
	"path/filepath"
	"regexp"
	"sort"
	"strings"
	"unicode/utf8"

	"compiler/verifharness/core"
	"compiler/verifharness/fer"
	"compiler/verifharness/sut"

	"pgregory.net/rapid"
)

// ---- independent lexer for token boundaries (the lexical grammar: first pattern that matches wins) ----

const c19Num = `-?(?:0[xX][0-9a-fA-F](?:[0-9a-fA-F]|_[0-9a-fA-F])*|0[oO][0-7](?:[0-7]|_[0-7])*|0[bB][01](?:[01]|_[01])*|[0-9](?:[0-9]|_[0-9])*(?:\.[0-9](?:[0-9]|_[0-9])*)?(?:[eE][+-]?[0-9](?:[0-9]|_[0-9])*)?)`

var c19Pats = func() []*regexp.Regexp {
	src := []string{
		`\s+`, `//[^\n\r]*`, `(?s)/\*.*?\*/`, `"[^"]*"`, `'(?:\\x[0-9a-fA-F]{2}|\\.|[\x00-\x7F])'`, c19Num, `[a-zA-Z_][a-zA-Z0-9_]*`,
		`\+\+`, `--`, `->`, `=>`, `::`, `!=`, `\+=`, `-=`, `\*\*=`, `\*=`, `/=`, `%=`, `\^=`, `\*\*`, `\.\.\.`, `\.\.=`, `\.\.`, `&&`, `\|\|`, `&'`,
		`<=`, `>=`, `==`, `:=`, `\?\?`,
	}
	var out []*regexp.Regexp
	for _, s := range src {
		out = append(out, regexp.MustCompile(`^(?:`+s+`)`))
	}
	return out
}()

type c19Lexeme struct {
	Kind   int // 0 whitespace, 1 comment, 2 token
	Text   string
	SL, SC int // start line/col
	EL, EC int // end line/col (position after the last rune)
}

// c19Lex splits text into lexemes and computes positions by the plain rule:
// newline -> next line column 1, tab -> +4 columns, any other rune -> +1.
// quirky[line] marks lines holding a tab that is followed by another character inside
// the same lexeme (the implementation deliberately counts differently there; such
// lines are exempt from column checks).
func c19Lex(text string) (lx []c19Lexeme, quirky map[int]bool) {
	quirky = map[int]bool{}
	line, col := 1, 1
	for off := 0; off < len(text); {
		rest := text[off:]
		kind, n := 2, 0
		for i, p := range c19Pats {
			if loc := p.FindStringIndex(rest); loc != nil && loc[1] > 0 {
				n = loc[1]
				if i == 0 {
					kind = 0
				} else if i <= 2 {
					kind = 1
				}
				break
			}
		}
		if n == 0 {
			_, n = utf8.DecodeRuneInString(rest)
		}
		l := c19Lexeme{Kind: kind, Text: rest[:n], SL: line, SC: col}
		prevTab := false
		for _, r := range l.Text {
			switch r {
			case '\n':
				line++
				col = 1
				prevTab = false
			case '\t':
				col += 4
				prevTab = true
			default:
				if prevTab {
					quirky[line] = true
				}
				col++
				prevTab = false
			}
		}
		l.EL, l.EC = line, col
		lx = append(lx, l)
		off += n
	}
	lx = append(lx, c19Lexeme{Kind: 2, Text: "", SL: line, SC: col, EL: line, EC: col}) // end of file
	return
}

func c19TokensOf(lx []c19Lexeme) []c19Lexeme {
	var out []c19Lexeme
	for _, l := range lx {
		if l.Kind == 2 {
			out = append(out, l)
		}
	}
	return out
}

// ---- case ----

type c19Case struct {
	Base     string `json:"base"`
	Variant  string `json:"variant"`
	Kind     string `json:"kind"`   // model | corpus | model_damaged | corpus_damaged
	Target   string `json:"target"` // check | wasm | native
	Changed  int    `json:"gaps_changed"`
	Comments int    `json:"comments_inserted"`
	Newlines int    `json:"newlines_inserted"`
	Discard  string `json:"discard,omitempty"`
}

func (c *c19Case) Files() map[string]string {
	return map[string]string{"base/main.fer": c.Base, "variant/main.fer": c.Variant}
}

var c19CommentBodies = []string{"", " ", "x", " note ", "*", " * / ", " // ", " \" ", " ' ", " fn main() { ", " ünï cødé ✓ ", " a\n b ", "\n", " line1\n * line2\n ", " { ( [ ", " 1 + ", "-"}
var c19LineBodies = []string{"", " c", "/ doc", " \"", " /* ", " */ x", " ünï ✓", " fn f() {", " ;"}

func c19Trivia(t *rapid.T, atEnd bool) (s string, comments, newlines int) {
	n := rapid.IntRange(1, 3).Draw(t, "npieces")
	var b strings.Builder
	for i := 0; i < n; i++ {
		switch rapid.IntRange(0, 6).Draw(t, "piece") {
		case 0, 1:
			b.WriteString(strings.Repeat(" ", rapid.IntRange(1, 5).Draw(t, "sp")))
		case 2:
			k := rapid.IntRange(1, 3).Draw(t, "nl")
			b.WriteString(strings.Repeat("\n", k))
			newlines += k
		case 3:
			body := rapid.SampledFrom(c19CommentBodies).Draw(t, "cbody")
			b.WriteString("/*" + body + "*/")
			comments++
			newlines += strings.Count(body, "\n")
		case 4:
			b.WriteString("//" + rapid.SampledFrom(c19LineBodies).Draw(t, "lbody") + "\n")
			comments++
			newlines++
		case 5:
			b.WriteString("\r\n")
			newlines++
		case 6:
			// tabs only where nothing of the same lexeme follows them: at the very end of the gap
			if atEnd && i == n-1 {
				b.WriteString(strings.Repeat("\t", rapid.IntRange(1, 3).Draw(t, "tabs")))
			} else {
				b.WriteString(" ")
			}
		}
	}
	return b.String(), comments, newlines
}

// c19Vary inserts trivia into gaps between tokens.  Gaps whose comments carry an '@'
// tag are left alone (a comment directly in front of a declaration is a doc comment and
// '@extern' in it has meaning).
func c19Vary(t *rapid.T, base string) (variant string, changed, comments, newlines int) {
	lx, _ := c19Lex(base)
	// group into gaps: gap g = lexemes of kind 0/1 before token g
	var b strings.Builder
	dens := rapid.IntRange(1, 6).Draw(t, "density")
	i := 0
	for i < len(lx) {
		j := i
		hasTag := false
		for j < len(lx) && lx[j].Kind != 2 {
			if lx[j].Kind == 1 && strings.Contains(lx[j].Text, "@") {
				hasTag = true
			}
			j++
		}
		// lx[i:j] is the gap, lx[j] the token (or nothing)
		insFront, insEnd := "", ""
		if !hasTag && rapid.IntRange(0, 9).Draw(t, "chg") < dens {
			atEnd := rapid.Bool().Draw(t, "atend")
			s, c, n := c19Trivia(t, atEnd)
			// never put something directly behind a line comment that has no newline yet (end of file)
			if atEnd && (j == i || lx[j-1].Kind != 1 || !strings.HasPrefix(lx[j-1].Text, "//")) {
				insEnd = s
			} else {
				insFront = s
			}
			changed++
			comments += c
			newlines += n
		}
		// a comment glued to a preceding '/' would start a different lexeme ("/" + "/*" = "//*"): keep them apart
		glue := func(ins string) string {
			if strings.HasPrefix(ins, "/") && strings.HasSuffix(b.String(), "/") {
				return " " + ins
			}
			return ins
		}
		b.WriteString(glue(insFront))
		for k := i; k < j; k++ {
			b.WriteString(lx[k].Text)
		}
		b.WriteString(glue(insEnd))
		if j < len(lx) {
			b.WriteString(lx[j].Text)
		}
		i = j + 1
	}
	return b.String(), changed, comments, newlines
}

func c19Damage(t *rapid.T, text string) string {
	lx, _ := c19Lex(text)
	var idx []int
	for i, l := range lx {
		if l.Kind == 2 && l.Text != "" {
			idx = append(idx, i)
		}
	}
	if len(idx) == 0 {
		return text
	}
	nm := rapid.IntRange(1, 2).Draw(t, "ndamage")
	for m := 0; m < nm; m++ {
		at := idx[rapid.IntRange(0, len(idx)-1).Draw(t, "at")]
		if lx[at].Text == "" {
			continue
		}
		switch rapid.IntRange(0, 7).Draw(t, "damage") {
		case 0: // delete
			lx[at].Text = ""
		case 1: // duplicate
			lx[at].Text = lx[at].Text + " " + lx[at].Text
		default: // class-preserving substitution
			cls := c13Class(lx[at].Text)
			if cls == "" {
				continue
			}
			var same []string
			for _, k := range idx {
				if lx[k].Text != "" && c13Class(lx[k].Text) == cls && lx[k].Text != lx[at].Text {
					same = append(same, lx[k].Text)
				}
			}
			same = append(same, c13ClassExtra[cls]...)
			if len(same) > 0 {
				lx[at].Text = rapid.SampledFrom(same).Draw(t, "subst")
			}
		}
	}
	var b strings.Builder
	for _, l := range lx {
		b.WriteString(l.Text)
	}
	return b.String()
}

func c19Gen(t *rapid.T, env *core.Env) any {
	c := &c19Case{}
	k := rapid.IntRange(0, 9).Draw(t, "kind")
	switch {
	case k < 6:
		cfg := fer.Config{Structs: true, Methods: true, Enums: true, Fixed: true, Dyn: true, Str: true, Refs: true, Closures: k%2 == 0, Results: true, Recursion: true, Narrow: true, MaxScen: 2}
		pc := genProgCase(t, env, cfg)
		c.Base = pc.Src
		c.Kind = "model"
	default:
		corpus := c13LoadCorpus(env.Repo)
		c.Base = corpus[rapid.IntRange(0, len(corpus)-1).Draw(t, "file")]
		c.Kind = "corpus"
	}
	if k%3 != 0 {
		c.Base = c19Damage(t, c.Base)
		c.Kind += "_damaged"
	}
	c.Target = rapid.SampledFrom([]string{"check", "check", "wasm", "wasm", "native"}).Draw(t, "target")
	c.Variant, c.Changed, c.Comments, c.Newlines = c19Vary(t, c.Base)
	return c
}

var c19LineNoRe = regexp.MustCompile(`at line \d+|funclit[0-9a-f]+`)

type c19Obs struct {
	r        *sut.CompileResult
	accepted bool
	artifact string
}

func c19Compile(env *core.Env, dir, src, target string) *c19Obs {
	tc := tcOf(env)
	os.RemoveAll(dir)
	sut.WriteProject(dir, map[string]string{"main.fer": src})
	o := sut.CompileOpts{}
	art := ""
	switch target {
	case "check":
		o.TypeOnly = true
	case "wasm":
		o.Target = "wasm"
		art = filepath.Join(dir, "out.wasm")
		o.Out = art
	default:
		art = filepath.Join(dir, "out.bin")
		o.Out = art
	}
	r := tc.Compile(dir, o)
	ob := &c19Obs{r: r, artifact: art}
	ob.accepted = r.Exit == 0 && len(r.Errors()) == 0 && (art == "" || fileExists(art))
	return ob
}

func c19DiagKey(d sut.Diag) string {
	return d.Severity + "[" + d.Code + "] " + c19LineNoRe.ReplaceAllString(d.Msg, "at line N")
}

type c19Pos struct{ L, C int }

var c19ImportRe = regexp.MustCompile(`import\s+"([^"]*)"`)

// c19EnvDependent: repository programs that touch the file system, time, randomness or other modules
// are compiled but not executed (their output is not a function of the source text alone).
func c19EnvDependent(src string) bool {
	for _, m := range c19ImportRe.FindAllStringSubmatch(src, -1) {
		if m[1] != "std/io" {
			return true
		}
	}
	return false
}

func c19Check(env *core.Env, ci any) (res core.Result) {
	c := ci.(*c19Case)
	if c.Discard != "" {
		res.Discard = c.Discard
		return
	}
	res.Key = c.Base + "\x00" + c.Variant
	blx, bq := c19Lex(c.Base)
	vlx, vq := c19Lex(c.Variant)
	bt, vt := c19TokensOf(blx), c19TokensOf(vlx)
	same := len(bt) == len(vt)
	for i := 0; same && i < len(bt); i++ {
		same = bt[i].Text == vt[i].Text
	}
	if !same {
		res.Discard = "generator: token sequence of the variant differs"
		if d := os.Getenv("VERIF_C19_DUMP"); d != "" {
			os.WriteFile(d, []byte(c.Base+"\n=====\n"+c.Variant), 0o644)
		}
		return
	}
	res.Labels = append(res.Labels, "kind:"+c.Kind, "target:"+c.Target)
	dir := env.NextDir()
	bo := c19Compile(env, filepath.Join(dir, "base", "p"), c.Base, c.Target) // same module name on both sides
	vo := c19Compile(env, filepath.Join(dir, "variant", "p"), c.Variant, c.Target)
	if bo.r.TimedOut || bo.r.Crash != "" || vo.r.TimedOut || vo.r.Crash != "" {
		if (bo.r.Crash != "") != (vo.r.Crash != "") || bo.r.TimedOut != vo.r.TimedOut {
			res.Labels = append(res.Labels, "crash_on_one_side_only")
		}
		res.Discard = "compiler crash/hang (C13's matter)"
		return
	}
	show := func() string {
		return fmt.Sprintf("--- base ---\n%s\n--- variant (trivia inserted in %d gaps) ---\n%s", c.Base, c.Changed, c.Variant)
	}
	if bo.accepted != vo.accepted {
		res.Violation = fmt.Sprintf("inserting trivia between tokens changes acceptance (target %s): base accepted=%v, variant accepted=%v\nbase output: %s\nvariant output: %s\n%s",
			c.Target, bo.accepted, vo.accepted, firstLines(bo.r.Out, 8), firstLines(vo.r.Out, 8), show())
		res.VKey = "acceptance_changed"
		return
	}
	// diagnostics: same multiset, each on the same token
	bd, vd := bo.r.Diags, vo.r.Diags
	keys := func(ds []sut.Diag) []string {
		var k []string
		for _, d := range ds {
			k = append(k, c19DiagKey(d))
		}
		sort.Strings(k)
		return k
	}
	if bk, vk := keys(bd), keys(vd); strings.Join(bk, "\n") != strings.Join(vk, "\n") {
		res.Violation = fmt.Sprintf("inserting trivia changes the diagnostics\nbase:\n  %s\nvariant:\n  %s\n%s", strings.Join(bk, "\n  "), strings.Join(vk, "\n  "), show())
		res.VKey = "diagnostics_changed"
		return
	}
	// expected positions per base diagnostic
	type want struct {
		any     bool
		lineSet map[int]bool  // acceptable lines when the column is exempt
		pos     map[c19Pos]bool
	}
	wants := make([]want, len(bd))
	anchored, checkedCols := 0, 0
	for i, d := range bd {
		w := want{lineSet: map[int]bool{}, pos: map[c19Pos]bool{}}
		if !d.HasLoc || !strings.HasSuffix(d.Path, "main.fer") || bq[d.Line] {
			w.any = true
			wants[i] = w
			continue
		}
		for ti, tk := range bt {
			if tk.SL == d.Line && tk.SC == d.Col {
				w.pos[c19Pos{vt[ti].SL, vt[ti].SC}] = true
			}
			if tk.EL == d.Line && tk.EC == d.Col && tk.Text != "" {
				w.pos[c19Pos{vt[ti].EL, vt[ti].EC}] = true
			}
		}
		if d.Line == 1 && d.Col == 1 && len(w.pos) > 0 {
			// 1:1 is also where diagnostics about the file as a whole are put (back-end failures):
			// such a diagnostic stays at 1:1 however the first token moves
			w.pos[c19Pos{1, 1}] = true
		}
		if len(w.pos) == 0 {
			w.any = true
		} else {
			anchored++
			for p := range w.pos {
				w.lineSet[p.L] = true
			}
		}
		wants[i] = w
	}
	ok := func(i, j int) bool {
		if c19DiagKey(bd[i]) != c19DiagKey(vd[j]) {
			return false
		}
		w := wants[i]
		if w.any {
			return true
		}
		if !vd[j].HasLoc {
			return false
		}
		if vq[vd[j].Line] {
			return w.lineSet[vd[j].Line]
		}
		return w.pos[c19Pos{vd[j].Line, vd[j].Col}]
	}
	// bipartite matching (Kuhn)
	matchV := make([]int, len(vd))
	for j := range matchV {
		matchV[j] = -1
	}
	var try func(i int, seen []bool) bool
	try = func(i int, seen []bool) bool {
		for j := range vd {
			if seen[j] || !ok(i, j) {
				continue
			}
			seen[j] = true
			if matchV[j] < 0 || try(matchV[j], seen) {
				matchV[j] = i
				return true
			}
		}
		return false
	}
	for i := range bd {
		if !try(i, make([]bool, len(vd))) {
			var exp []string
			for p := range wants[i].pos {
				exp = append(exp, fmt.Sprintf("%d:%d", p.L, p.C))
			}
			sort.Strings(exp)
			var got []string
			for _, d := range vd {
				if c19DiagKey(d) == c19DiagKey(bd[i]) {
					got = append(got, fmt.Sprintf("%d:%d", d.Line, d.Col))
				}
			}
			res.Violation = fmt.Sprintf("a diagnostic does not follow its token: %q is reported at %d:%d in the base; the same token sits at %s in the variant, but the variant reports it at %s\n%s",
				c19DiagKey(bd[i]), bd[i].Line, bd[i].Col, strings.Join(exp, " or "), strings.Join(got, ", "), show())
			res.VKey = "position_wrong"
			if len(got) > 0 && len(exp) > 0 && strings.Split(got[0], ":")[0] == strings.Split(exp[0], ":")[0] {
				res.VKey = "position_wrong:column"
			}
			return
		}
		if !wants[i].any {
			checkedCols++
		}
	}
	if anchored > 0 {
		res.Labels = append(res.Labels, "diag_positions_checked")
	} else if len(bd) > 0 {
		res.Labels = append(res.Labels, "diag_unanchored_only")
	}
	// behaviour of accepted programs
	if bo.accepted && c.Target != "check" && strings.Contains(c.Kind, "corpus") && c19EnvDependent(c.Base) {
		res.Labels = append(res.Labels, "not_run:environment_dependent")
	} else if bo.accepted && c.Target != "check" {
		bb, _ := os.ReadFile(bo.artifact)
		vb, _ := os.ReadFile(vo.artifact)
		switch c.Target {
		case "wasm":
			if bytes.Equal(bb, vb) {
				res.Labels = append(res.Labels, "wasm_identical")
				break
			}
			wr, err := wasmRunner(env)
			if err != nil {
				res.Infra = "wasm runner: " + err.Error()
				return
			}
			b1, e1 := wr.Run(bo.artifact)
			v1, e2 := wr.Run(vo.artifact)
			if e1 != nil || e2 != nil {
				res.Infra = "wasm runner died"
				return
			}
			res.Labels = append(res.Labels, "wasm_differs_run_both")
			if b1.Status == "error" || v1.Status == "error" {
				res.Infra = "wasm runner error"
				return
			}
			if b1.Status != v1.Status || strings.Join(b1.Lines, "\n") != strings.Join(v1.Lines, "\n") {
				res.Violation = fmt.Sprintf("inserting trivia changes what the wasm module prints\nbase (%s): %s\nvariant (%s): %s\n%s", b1.Status, firstLines(strings.Join(b1.Lines, "\n"), 20), v1.Status, firstLines(strings.Join(v1.Lines, "\n"), 20), show())
				res.VKey = "output_changed:wasm"
				return
			}
		default:
			b1 := sut.RunNative(bo.artifact, 0)
			v1 := sut.RunNative(vo.artifact, 0)
			res.Labels = append(res.Labels, "native_run_both")
			if b1.Term() == "timeout" || v1.Term() == "timeout" {
				res.Discard = "executable timed out"
				return
			}
			if b1.Term() != v1.Term() || b1.Stdout != v1.Stdout {
				res.Violation = fmt.Sprintf("inserting trivia changes what the executable prints\nbase (%s): %s\nvariant (%s): %s\n%s", b1.Term(), firstLines(b1.Stdout, 20), v1.Term(), firstLines(v1.Stdout, 20), show())
				res.VKey = "output_changed:native"
				return
			}
		}
	}
	if bo.accepted {
		res.Labels = append(res.Labels, "accepted")
	} else {
		res.Labels = append(res.Labels, "rejected")
	}
	res.NonTrivial = c.Changed >= 3 && (c.Comments+c.Newlines) >= 1 && (bo.accepted && c.Target != "check" || anchored > 0)
	if res.NonTrivial {
		v := c.Variant
		if len(v) > 900 {
			v = v[:900]
		}
		res.Sample = fmt.Sprintf("%q", fmt.Sprintf("[%s/%s gaps=%d diags=%d anchored=%d] %s", c.Kind, c.Target, c.Changed, len(bd), anchored, v))
	}
	return
}

func init() {
	core.Register(&core.Prop{
		ID: "C19",
		Rule: "base text = rapid-generated well-typed program (fer model), a .fer file of the repository, or one of those damaged by 1-2 token deletions / duplications / class-preserving substitutions (so that parser and semantic diagnostics appear); variant = the base with generated trivia (runs of spaces, LF, CRLF, tabs in front of a token, block comments incl. multi-line / non-ASCII / quote and brace characters, line comments) inserted into a generated subset of the gaps between lexical tokens (harness lexer; a negative number literal is one token; gaps holding an '@' tag comment are left alone). Oracle: same acceptance (ferret -t, wasm or native build), same multiset of (severity, code, message with 'at line N' masked); every base diagnostic located on a token start/end must be reported at that token's start/end recomputed from the variant text (LF -> next line col 1, tab = 4 columns, rune = 1); accepted programs: identical .wasm bytes or identical printed lines/termination of both modules resp. executables. non-trivial = >= 3 gaps changed, >= 1 comment or line break inserted, and either the program is built and run/compared or >= 1 diagnostic position is checked; distinct = (base, variant) text",
		Gen:   c19Gen,
		New:   func() any { return &c19Case{} },
		Check: c19Check,
		Assumptions: []string{
			"tokens are the lexemes of the lexical grammar in the lexer's pattern order (a '-' directly followed by a digit belongs to the number literal)",
			"lines on which a tab is followed by another character inside one lexeme are exempt from the column check (the implementation deliberately does not count that character; position_test.go pins it)",
			"diagnostics whose base position is neither the start nor the end of a token are compared by message only",
		},
	})
}
