package props

// C09 — behaviour does not depend on what the compiler can evaluate early.
// Metamorphic check: a generated well-typed program and a copy rewritten by
// meaning-preserving rewrites (R1 literal -> call, R2 pure subexpression -> fresh
// const, R3 never-modified let -> const, R4 statements -> if true { }) must be treated
// the same by the compiler and print the same.

import (
	"fmt"
	"os"
	"path/filepath"
	"sort"
	"strings"

	"compiler/verifharness/core"
	"compiler/verifharness/fer"
	"compiler/verifharness/sut"

	"pgregory.net/rapid"
)

type c09Case struct {
	Base    string   `json:"base"`
	Variant string   `json:"variant"`
	Applied []string `json:"applied"`
	Target  string   `json:"target"`
	Expect  []string `json:"expect"`
	Term    string   `json:"term"`
	Family  string   `json:"family"`
	Discard string   `json:"discard,omitempty"`
}

func (c *c09Case) Files() map[string]string {
	return map[string]string{"base/main.fer": c.Base, "variant/main.fer": c.Variant}
}

func c09Gen(t *rapid.T, env *core.Env) any {
	var p *fer.Program
	family := "general"
	if rapid.Bool().Draw(t, "constrich") {
		p = fer.GenerateConsts(t, env.Use)
		family = "consts"
	} else {
		cfg := fer.Config{Structs: true, Methods: true, Enums: true, Fixed: true, Dyn: true, Str: true, Refs: true, Closures: true, Results: true, Recursion: true, Narrow: true, MaxScen: 3, Use: env.Use}
		cfg.Wide = rapid.IntRange(0, 3).Draw(t, "wide") == 0
		p = fer.Generate(t, cfg)
	}
	out := fer.Run(p)
	c := &c09Case{Base: p.Source(), Expect: out.Lines, Term: out.Term, Family: family}
	if out.Err != "" && family != "consts" {
		c.Discard = "model: " + out.Err
		return c
	}
	if out.Err != "" {
		// the constant-rich family contains value-changing casts, which the reference model leaves
		// open: base and variant are still compared with each other
		c.Expect, c.Term = nil, ""
	}
	// per-rule densities (out of 8) so that single-rule and mixed variants both occur
	dens := map[string]int{}
	for _, r := range []string{"R1", "R2", "R3", "R4"} {
		dens[r] = rapid.SampledFrom([]int{0, 0, 1, 2, 4, 8}).Draw(t, "dens"+r)
	}
	q, applied := fer.Rewrite(p, func(s fer.RewriteSite) bool {
		d := dens[s.Rule]
		if d == 0 {
			return false
		}
		return rapid.IntRange(0, 7).Draw(t, s.Rule) < d
	}, env.Use("closures.in_nested_block"))
	c.Variant = q.Source()
	c.Applied = applied
	c.Target = rapid.SampledFrom([]string{"native", "native", "native", "wasm"}).Draw(t, "target")
	return c
}

type c09Run struct {
	r     *sut.CompileResult
	ok    bool
	term  string
	lines []string
	infra string
}

func c09BuildRun(env *core.Env, dir, src, target string) *c09Run {
	tc := tcOf(env)
	os.RemoveAll(dir)
	sut.WriteProject(dir, map[string]string{"main.fer": src})
	out := &c09Run{}
	if target == "wasm" {
		art := filepath.Join(dir, "out.wasm")
		out.r = tc.Compile(dir, sut.CompileOpts{Target: "wasm", Out: art})
		out.ok = out.r.OK() && len(out.r.Errors()) == 0 && fileExists(art)
		if !out.ok {
			return out
		}
		wr, err := wasmRunner(env)
		if err != nil {
			out.infra = err.Error()
			return out
		}
		w, err := wr.Run(art)
		if err != nil || w.Status == "error" {
			out.infra = "wasm runner failed"
			return out
		}
		out.term = map[string]string{"ok": "ok", "trap": "panic", "timeout": "timeout", "linkerror": "linkerror"}[w.Status]
		if d := os.Getenv("VERIF_C09_DUMP"); d != "" && w.Status == "linkerror" {
			os.WriteFile(d+".link", []byte(src+"\n/*\n"+w.Msg+"\n*/\n"), 0o644)
		}
		out.lines = w.Lines
		return out
	}
	exe := filepath.Join(dir, "out.bin")
	out.r = tc.Compile(dir, sut.CompileOpts{Out: exe})
	out.ok = out.r.OK() && len(out.r.Errors()) == 0 && fileExists(exe)
	if !out.ok {
		return out
	}
	run := sut.RunNative(exe, 0)
	out.term = run.Term()
	if run.Stdout != "" {
		out.lines = strings.Split(strings.TrimRight(run.Stdout, "\n"), "\n")
	}
	return out
}

func c09Check(env *core.Env, ci any) (res core.Result) {
	c := ci.(*c09Case)
	if c.Discard != "" {
		res.Discard = c.Discard
		return
	}
	res.Key = c.Variant
	if len(c.Applied) == 0 {
		res.Discard = "no rewrite site chosen"
		return
	}
	rules := map[string]bool{}
	for _, a := range c.Applied {
		rules[a[:2]] = true
		res.Labels = append(res.Labels, "site:"+a)
	}
	var rl []string
	for r := range rules {
		rl = append(rl, r)
	}
	sort.Strings(rl)
	res.Labels = append(res.Labels, "rules:"+strings.Join(rl, "+"), "target:"+c.Target, "family:"+c.Family)
	dir := env.NextDir()
	b := c09BuildRun(env, filepath.Join(dir, "base"), c.Base, c.Target)
	if b.infra != "" {
		res.Infra = b.infra
		return
	}
	if b.r.TimedOut || b.r.Crash != "" {
		res.Discard = "base: compiler crash/hang (C01/C13's matter)"
		return
	}
	if !b.ok {
		if d := os.Getenv("VERIF_C09_DUMP"); d != "" && c.Target == "native" {
			os.WriteFile(d, []byte(c.Base+"\n/*\n"+firstLines(b.r.Out, 12)+"\n*/\n"), 0o644)
		}
		res.Discard = "base not accepted for " + c.Target
		return
	}
	if b.term == "timeout" || b.term == "linkerror" {
		res.Discard = "base does not run (" + b.term + ")"
		return
	}
	if c.Target == "native" && c.Term != "" && (b.term != c.Term || strings.Join(b.lines, "\n") != strings.Join(c.Expect, "\n")) {
		// not decisive here (C01 owns agreement with the reference); base and variant are still compared with each other
		res.Labels = append(res.Labels, "base_deviates_from_reference")
	}
	v := c09BuildRun(env, filepath.Join(dir, "variant"), c.Variant, c.Target)
	if v.infra != "" {
		res.Infra = v.infra
		return
	}
	show := func() string {
		return fmt.Sprintf("rewrites applied: %s\n--- base ---\n%s\n--- rewritten ---\n%s", strings.Join(c.Applied, " "), c.Base, c.Variant)
	}
	if v.r.TimedOut || v.r.Crash != "" {
		res.VKey = "acceptance_changed:compiler_crash:" + v.r.Crash
		if v.r.TimedOut {
			res.VKey = "acceptance_changed:compiler_hang"
		}
		if m := assertRe.FindStringSubmatch(v.r.Out); m != nil {
			res.VKey = "acceptance_changed:qbe_assert:" + m[1]
		}
		res.Violation = fmt.Sprintf("the compiler accepts the base but crashes or hangs on the rewritten program (%s, crash=%q, timeout=%v)\n%s\n%s", c.Target, v.r.Crash, v.r.TimedOut, firstLines(v.r.Out, 10), show())
		return
	}
	if !v.ok {
		// the documented exception: a fixed-array index that is no longer a compile-time constant
		only28 := len(v.r.Errors()) > 0
		for _, e := range v.r.Errors() {
			if e.Code != "T0028" {
				only28 = false
			}
		}
		if only28 {
			res.Discard = "variant rejected by the documented constant-index rule (T0028)"
			return
		}
		msg, key := "(no diagnostic)", "rejected"
		if es := v.r.Errors(); len(es) > 0 {
			msg = fmt.Sprintf("%s (line %d)", es[0].Msg, es[0].Line)
			w := strings.Fields(identRe.ReplaceAllString(es[0].Msg, "'X'"))
			if len(w) > 4 {
				w = w[:4]
			}
			key = "rejected:" + strings.Join(w, "_")
		}
		res.Violation = fmt.Sprintf("a meaning-preserving rewrite turns an accepted program into a rejected one (%s): %s\n%s\n%s", c.Target, msg, firstLines(v.r.Out, 12), show())
		res.VKey = "acceptance_changed:" + key
		return
	}
	if v.term == "linkerror" {
		res.Discard = "variant module does not instantiate"
		return
	}
	res.NonTrivial = len(b.lines) >= 4
	if b.term != v.term || strings.Join(b.lines, "\n") != strings.Join(v.lines, "\n") {
		first := ""
		for i := 0; i < len(b.lines) || i < len(v.lines); i++ {
			var x, y string
			if i < len(b.lines) {
				x = b.lines[i]
			}
			if i < len(v.lines) {
				y = v.lines[i]
			}
			if x != y {
				first = fmt.Sprintf("first difference at line %d: base %q, rewritten %q", i+1, x, y)
				break
			}
		}
		res.Violation = fmt.Sprintf("a meaning-preserving rewrite changes the behaviour (%s): base ends %s, rewritten ends %s; %s\n%s", c.Target, b.term, v.term, first, show())
		res.VKey = "output_changed:" + strings.Join(rl, "+")
		return
	}
	if res.NonTrivial {
		vs := c.Variant
		if len(vs) > 1200 {
			vs = vs[:1200]
		}
		res.Sample = fmt.Sprintf("%q", "["+strings.Join(c.Applied, " ")+"] "+vs)
	}
	return
}

func init() {
	core.Register(&core.Prop{
		ID: "C09",
		Rule: "base = rapid-generated well-typed program (same generator as C01: all integer widths, structs, enums/match, arrays, references, closures, results, loops) or, in a third of the cases, of the constant-rich family (named values - const, never-reassigned let, reassigned let - with constant-expression initialisers incl. wrapping arithmetic and value-changing casts, used as fixed / dynamic array indices, indices of array literals, range bounds and steps, match scrutinees and patterns, conditions; a `let` used in such a position and reassigned afterwards) that the compiler accepts; variant = typed-AST rewrite of the base at generated sites with generated per-rule densities: R1 int/bool/str literal -> call of a fresh function returning it (not in index expressions, const initialisers, literal conditions), R2 a pure, total binary subexpression (no calls, / %, indexing; not under the right operand of && ||) of a call-free statement -> fresh `const` directly before the statement, R3 a `let` that is never assigned, borrowed `&'`, appended to or used as a method receiver -> `const`, R4 a run of statements that declares nothing used later and does not return/break out -> `if true { ... }`. Oracle: the variant is accepted (a rejection consisting only of T0028, the documented constant-index rule, is discarded) and prints the same lines and terminates the same way (native executable, or wasm module under the shipped runtime). non-trivial = >= 4 printed lines; distinct = variant text",
		Gen:   c09Gen,
		New:   func() any { return &c09Case{} },
		Check: c09Check,
		Assumptions: []string{
			"purity/non-interference of hoisted expressions and 'never modified' are established syntactically on the model AST (conservative)",
			"bases that the compiler rejects or crashes on are C01/C13's matter and discarded here; a base that deviates from the reference interpreter is labelled and still compared with its variant",
		},
	})
}
