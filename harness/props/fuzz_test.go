package props

// Native Go fuzzing tier (thorough only): the property's rapid generator is driven by the
// fuzzing engine's byte strings (rapid.MakeFuzz), so inputs are structured the same way as in
// the campaign, while the mutation engine follows the coverage of everything linked into the
// test binary — for C13 the compiler itself (in-process compilation, see inproc_test.go), for
// C20 the TOML package, for C18 the layout code.  Oracle and confirmation are those of the
// campaign; a failing input is saved in the usual case format before the engine is told.

import (
	"os"
	"testing"

	"compiler/verifharness/core"

	"pgregory.net/rapid"
)

func FuzzCampaign(f *testing.F) {
	p := core.Lookup(os.Getenv("VERIF_PROP"))
	if p == nil || p.Gen == nil {
		f.Skip("VERIF_PROP not set")
	}
	faildir := os.Getenv("VERIF_FAILDIR")
	// seed corpus: the generators consume many bytes; an empty corpus would spend the budget on
	// inputs that run out of entropy after the first draws.  Deterministic pseudo-random strings
	// of several lengths (a function of VERIF_SEED) give the engine structured cases to mutate.
	x := uint64(env.Seed)*0x9E3779B97F4A7C15 + 0x1234567
	next := func() uint64 {
		x += 0x9E3779B97F4A7C15
		z := x
		z = (z ^ (z >> 30)) * 0xBF58476D1CE4E5B9
		z = (z ^ (z >> 27)) * 0x94D049BB133111EB
		return z ^ (z >> 31)
	}
	for _, n := range []int{256, 1024, 4096, 4096, 16384, 16384, 65536} {
		for rep := 0; rep < 6; rep++ {
			b := make([]byte, n)
			for i := 0; i < n; i += 8 {
				v := next()
				for j := 0; j < 8 && i+j < n; j++ {
					b[i+j] = byte(v >> (8 * j))
				}
			}
			f.Add(b)
		}
	}
	f.Fuzz(rapid.MakeFuzz(func(t *rapid.T) {
		c := p.Gen(t, env)
		r := evalCase(p, c)
		if r.Violation == "" {
			return
		}
		r = confirm(p, c, r)
		if r.Violation == "" || env.Known.IsKnown(p.ID, r.VKey) {
			return
		}
		if faildir != "" && !fileExists(faildir+"/case.json") {
			core.SaveCase(faildir, p.ID, c, r)
		}
		t.Fatalf("%s", r.Violation)
	}))
}
