package props

// C12 — visibility by capitalisation is enforced across modules and types.
// Product generator over (symbol kind x access site x syntactic context x import form).
// A site naming a lowercase symbol of another module, or a lowercase field outside a
// method of its type, must be rejected; the control twin naming the uppercase twin symbol
// must be accepted.  Allowed uses of private fields (struct literals, receiver access in a
// method, also inside a closure there) must be accepted.

import (
	"fmt"
	"path/filepath"
	"strings"

	"compiler/verifharness/core"
	"compiler/verifharness/sut"

	"pgregory.net/rapid"
)

type c12Case struct {
	FilesV map[string]string `json:"variant"` // names the private symbol (or is the allowed use)
	FilesT map[string]string `json:"twin"`    // names the exported twin (empty for allowed uses)
	Kind   string            `json:"kind"`
	Site   string            `json:"site"`
	Ctx    string            `json:"ctx"`
	Import string            `json:"import"`
	Allow  bool              `json:"allow"` // the variant itself must be accepted
}

func (c *c12Case) Files() map[string]string {
	out := map[string]string{}
	for k, v := range c.FilesV {
		out["variant/"+k] = v
	}
	for k, v := range c.FilesT {
		out["twin/"+k] = v
	}
	return out
}

// provider module: every symbol kind in an exported and a private version
const c12Provider = `import "std/io";

type St struct { .Pub: i32, .hid: i32 };
type st struct { .Pub: i32, .hid: i32 };
type En enum { A, B };
type en enum { A, B };
const Kc: i32 = 3;
const kc: i32 = 3;
let Vv: i32 = 4;
let vv: i32 = 4;

fn Fn0(a: i32) -> i32 { return a + 1; }
fn fn0(a: i32) -> i32 { return a + 1; }
fn MkSt() -> St { return {.Pub = 1, .hid = 2}; }
fn Mkst() -> st { return {.Pub = 1, .hid = 2}; }
fn MkEn() -> En { return En::B; }
fn Mken() -> en { return en::B; }
fn (s: &St) Sum() -> i32 { return s.Pub + s.hid; }
fn (s: &'St) Bump() { s.hid = s.hid + 1; }
`

const c12MainHelpers = `
fn id(a: i32) -> i32 { return a; }
fn mayfail(x: i32) -> i32 ! i32 {
    if x > 0 { return 7!; }
    return x;
}
`

// expression contexts for an i32 expression E (statement lists inside fn main; some add a helper function)
type c12ExprCtx struct {
	name  string
	stmts func(e string) string
	decls func(e string) string
}

var c12ExprCtxs = []c12ExprCtx{
	{"println_arg", func(e string) string { return "io::Println(" + e + ");" }, nil},
	{"let_typed", func(e string) string { return "let t: i32 = " + e + ";\n    io::Println(t);" }, nil},
	{"let_inferred_binary", func(e string) string { return "let t := " + e + " + 1;\n    io::Println(t);" }, nil},
	{"const_init", func(e string) string { return "const t: i32 = " + e + ";\n    io::Println(t);" }, nil},
	{"if_condition", func(e string) string { return "if " + e + " > 0 { io::Println(1); }" }, nil},
	{"else_if_condition", func(e string) string { return "if id(0) > 5 { io::Println(0); } else if " + e + " > 0 { io::Println(1); }" }, nil},
	{"while_condition", func(e string) string { return "while " + e + " < 0 { io::Println(1); }" }, nil},
	{"match_scrutinee", func(e string) string { return "match " + e + " { 1 => { io::Println(1); } _ => { io::Println(2); } }" }, nil},
	{"return_expr", func(e string) string { return "io::Println(h());" }, func(e string) string { return "fn h() -> i32 { return " + e + "; }\n" }},
	{"call_arg", func(e string) string { return "io::Println(id(" + e + "));" }, nil},
	{"nested_call_arg", func(e string) string { return "io::Println(id(id(" + e + ") + 1));" }, nil},
	{"closure_body", func(e string) string { return "let f := fn() -> i32 { return " + e + "; };\n    io::Println(f());" }, nil},
	{"range_bound", func(e string) string { return "for i in 0.." + e + " { io::Println(i); }" }, nil},
	{"range_start", func(e string) string { return "for i in " + e + "..9 { io::Println(i); }" }, nil},
	{"dyn_index", func(e string) string { return "let arr: []i32 = [1, 2, 3, 4, 5, 6];\n    io::Println(arr[" + e + "]);" }, nil},
	{"struct_literal_field", func(e string) string { return "let w: W = {.F = " + e + ", .G = 0};\n    io::Println(w.F);" }, func(e string) string { return "type W struct { .F: i32, .G: i32 };\n" }},
	{"array_element", func(e string) string { return "let arr: []i32 = [" + e + ", 2];\n    io::Println(arr[0]);" }, nil},
	{"catch_fallback", func(e string) string { return "let t: i32 = mayfail(1) catch " + e + ";\n    io::Println(t);" }, nil},
	{"catch_handler", func(e string) string { return "let t: i32 = mayfail(1) catch er { io::Println(" + e + "); } 0;\n    io::Println(t);" }, nil},
	{"coalescing_default", func(e string) string { return "let o: i32? = none;\n    io::Println(o ?? " + e + ");" }, nil},
	{"unary_minus", func(e string) string { return "io::Println(-" + e + ");" }, nil},
	{"paren", func(e string) string { return "io::Println((" + e + "));" }, nil},
	{"cast", func(e string) string { return "io::Println(" + e + " as i64);" }, nil},
	{"compound_rhs", func(e string) string { return "let t: i32 = 1;\n    t += " + e + ";\n    io::Println(t);" }, nil},
	{"assign_rhs", func(e string) string { return "let t: i32 = 1;\n    t = " + e + ";\n    io::Println(t);" }, nil},
	{"comparison_rhs", func(e string) string { return "io::Println(id(1) == " + e + ");" }, nil},
	{"logical_operand", func(e string) string { return "io::Println(id(1) > 0 && " + e + " > 0);" }, nil},
	{"method_arg", func(e string) string { return "let w: W = {.F = 1, .G = 0};\n    io::Println(w.add(" + e + "));" }, func(e string) string {
		return "type W struct { .F: i32, .G: i32 };\nfn (w: &W) add(a: i32) -> i32 { return w.F + a; }\n"
	}},
	{"in_method_body", func(e string) string { return "let w: W = {.F = 1, .G = 0};\n    io::Println(w.get());" }, func(e string) string {
		return "type W struct { .F: i32, .G: i32 };\nfn (w: &W) get() -> i32 { return w.F + " + e + "; }\n"
	}},
	{"nested_blocks", func(e string) string { return "if id(1) > 0 { for i in 0..1 { let t: i32 = " + e + ";\n    io::Println(t); } }" }, nil},
}

// a site: how the symbol is named. kind "expr" sites are combined with every expression context.
type c12Site struct {
	kind  string // fn const var struct enum
	name  string
	expr  func(q string) string // i32 expression naming the symbol (q = "alias::name")
	stmts func(q string) string // or: whole statement list
	decls func(q string) string
}

var c12Names = map[string][2]string{ // kind -> exported, private
	"fn": {"Fn0", "fn0"}, "const": {"Kc", "kc"}, "var": {"Vv", "vv"}, "struct": {"St", "st"}, "enum": {"En", "en"},
}

const c12Lit = "{.Pub = 1, .hid = 2}"

var c12Sites = []c12Site{
	{kind: "fn", name: "call", expr: func(q string) string { return q + "(2)" }},
	{kind: "const", name: "read", expr: func(q string) string { return q }},
	{kind: "var", name: "read", expr: func(q string) string { return q }},
	{kind: "fn", name: "as_value", stmts: func(q string) string { return "let g := " + q + ";\n    io::Println(g(1));" }},
	{kind: "var", name: "assign", stmts: func(q string) string { return q + " = 9;\n    io::Println(1);" }},
	{kind: "var", name: "compound_assign", stmts: func(q string) string { return q + " += 1;\n    io::Println(1);" }},
	{kind: "var", name: "borrow", stmts: func(q string) string { return "let r: &i32 = &" + q + ";\n    io::Println(r);" }},
	{kind: "struct", name: "annotation", stmts: func(q string) string { return "let v: " + q + " = " + c12Lit + ";\n    io::Println(v.Pub);" }},
	{kind: "struct", name: "cast_target", stmts: func(q string) string { return "let v := " + c12Lit + " as " + q + ";\n    io::Println(v.Pub);" }},
	{kind: "struct", name: "param_type", stmts: func(q string) string { return "io::Println(1);" }, decls: func(q string) string { return "fn use(p: " + q + ") -> i32 { return p.Pub; }\n" }},
	{kind: "struct", name: "ref_param_type", stmts: func(q string) string { return "io::Println(1);" }, decls: func(q string) string { return "fn use(p: &" + q + ") -> i32 { return p.Pub; }\n" }},
	{kind: "struct", name: "mutref_param_type", stmts: func(q string) string { return "io::Println(1);" }, decls: func(q string) string { return "fn use(p: &'" + q + ") { p.Pub = 1; }\n" }},
	{kind: "struct", name: "return_type", stmts: func(q string) string { return "io::Println(mk().Pub);" }, decls: func(q string) string { return "fn mk() -> " + q + " { return " + c12Lit + "; }\n" }},
	{kind: "struct", name: "array_elem_type", stmts: func(q string) string { return "let a: [1]" + q + " = [" + c12Lit + "];\n    io::Println(a[0].Pub);" }},
	{kind: "struct", name: "dyn_array_elem_type", stmts: func(q string) string { return "let a: []" + q + " = [" + c12Lit + "];\n    io::Println(len(a));" }},
	{kind: "struct", name: "optional_type", stmts: func(q string) string { return "let o: " + q + "? = none;\n    io::Println(1);" }},
	{kind: "struct", name: "field_type_in_type_decl", stmts: func(q string) string { return "io::Println(1);" }, decls: func(q string) string { return "type Wrap struct { .F: " + q + ", .N: i32 };\n" }},
	{kind: "struct", name: "closure_param_type", stmts: func(q string) string { return "let f := fn(p: " + q + ") -> i32 { return p.Pub; };\n    io::Println(1);" }},
	{kind: "struct", name: "result_type", stmts: func(q string) string { return "io::Println(1);" }, decls: func(q string) string { return "fn tr() -> i32 ! " + q + " { return " + c12Lit + "; }\n" }},
	{kind: "enum", name: "variant_value", stmts: func(q string) string { return "let e := " + q + "::A;\n    io::Println(1);" }},
	{kind: "enum", name: "variant_in_comparison", stmts: func(q string) string { return "let e := " + q + "::A;\n    if e == " + q + "::B { io::Println(1); }" }},
	{kind: "enum", name: "annotation", stmts: func(q string) string { return "let e: " + q + " = MKEN;\n    io::Println(1);" }},
	{kind: "enum", name: "match_pattern", stmts: func(q string) string { return "match MKEN { " + q + "::A => { io::Println(1); } _ => { io::Println(2); } }" }},
	{kind: "enum", name: "param_type", stmts: func(q string) string { return "io::Println(1);" }, decls: func(q string) string { return "fn use(p: " + q + ") -> i32 { return 1; }\n" }},
}

// field access sites: where + form
type c12Field struct {
	name  string
	allow bool
	// returns (provider module text, main text); f = field name
	build func(f string) (string, string)
}

func c12FieldForms() []struct{ name, tmpl string } {
	return []struct{ name, tmpl string }{
		{"read", "io::Println(V.F);"},
		{"read_in_expr", "let t: i32 = V.F + 1;\n    io::Println(t);"},
		{"write", "V.F = 5;\n    io::Println(1);"},
		{"compound", "V.F += 5;\n    io::Println(1);"},
		{"inc", "V.F++;\n    io::Println(1);"},
		{"borrow", "let r: &i32 = &V.F;\n    io::Println(r);"},
		{"mut_borrow", "let r: &'i32 = &'V.F;\n    io::Println(1);"},
		{"paren_read", "io::Println((V).F);"},
		{"condition", "if V.F > 0 { io::Println(1); }"},
		{"call_arg", "io::Println(ident(V.F));"},
		{"closure_read", "let f := fn() -> i32 { return V.F; };\n    io::Println(f());"},
	}
}

func c12Main(imp, helperDecls, body string) string {
	return "import \"std/io\";\n" + imp + "\n" + c12MainHelpers + helperDecls + "\nfn main() {\n    " + body + "\n}\n"
}

func c12ImportLine(form string) (line, prefix string) {
	switch form {
	case "alias":
		return "import \"proj/m1\" as q;", "q"
	case "alias_upper":
		return "import \"proj/m1\" as Mod;", "Mod"
	}
	return "import \"proj/m1\";", "m1"
}

func c12All() []*c12Case {
	var out []*c12Case
	imports := []string{"plain", "alias", "alias_upper"}
	for _, imf := range imports {
		line, pre := c12ImportLine(imf)
		mk := func(s c12Site, ctxName string, bodyOf func(q string) (decls, body string)) {
			names := c12Names[s.kind]
			build := func(name string) map[string]string {
				q := pre + "::" + name
				decls, body := bodyOf(q)
				mken := pre + "::MkEn()"
				if name == names[1] && s.kind == "enum" {
					mken = pre + "::Mken()"
				}
				body = strings.ReplaceAll(body, "MKEN", mken)
				return map[string]string{"proj/m1.fer": c12Provider, "proj/main.fer": c12Main(line, decls, body)}
			}
			out = append(out, &c12Case{FilesV: build(names[1]), FilesT: build(names[0]), Kind: s.kind, Site: s.name, Ctx: ctxName, Import: imf})
		}
		for _, s := range c12Sites {
			s := s
			if s.expr != nil {
				for _, cx := range c12ExprCtxs {
					cx := cx
					mk(s, cx.name, func(q string) (string, string) {
						d := ""
						if cx.decls != nil {
							d = cx.decls(s.expr(q))
						}
						return d, cx.stmts(s.expr(q))
					})
				}
				continue
			}
			mk(s, "statement", func(q string) (string, string) {
				d := ""
				if s.decls != nil {
					d = s.decls(q)
				}
				return d, s.stmts(q)
			})
		}
	}
	// field accesses
	line, pre := c12ImportLine("plain")
	for _, ff := range c12FieldForms() {
		ff := ff
		stmt := func(v, f string) string {
			return strings.ReplaceAll(strings.ReplaceAll(ff.tmpl, "V.F", v+"."+f), "(V).F", "("+v+")."+f)
		}
		fieldCase := func(site string, allow bool, build func(f string) map[string]string) {
			c := &c12Case{Kind: "field", Site: site, Ctx: ff.name, Import: "plain", Allow: allow}
			c.FilesV = build("hid")
			if !allow {
				c.FilesT = build("Pub")
			}
			out = append(out, c)
		}
		// other module, plain function
		fieldCase("other_module_function", false, func(f string) map[string]string {
			body := "let v: " + pre + "::St = " + pre + "::MkSt();\n    " + stmt("v", f)
			return map[string]string{"proj/m1.fer": c12Provider, "proj/main.fer": c12Main(line, "fn ident(a: i32) -> i32 { return a; }\n", body)}
		})
		// other module, through a reference parameter
		fieldCase("other_module_ref_param", false, func(f string) map[string]string {
			decl := "fn ident(a: i32) -> i32 { return a; }\nfn look(v: &'" + pre + "::St) {\n    " + stmt("v", f) + "\n}\n"
			body := "let s: " + pre + "::St = " + pre + "::MkSt();\n    look(&'s);"
			return map[string]string{"proj/m1.fer": c12Provider, "proj/main.fer": c12Main(line, decl, body)}
		})
		// same module, plain function (not a method of the type)
		fieldCase("same_module_function", false, func(f string) map[string]string {
			prov := c12Provider + "fn ident(a: i32) -> i32 { return a; }\nfn Peek() {\n    let v: St = {.Pub = 1, .hid = 2};\n    " + stmt("v", f) + "\n}\n"
			return map[string]string{"proj/m1.fer": prov, "proj/main.fer": c12Main(line, "", pre+"::Peek();")}
		})
		// same module, method of another type
		fieldCase("same_module_method_of_other_type", false, func(f string) map[string]string {
			prov := c12Provider + "fn ident(a: i32) -> i32 { return a; }\ntype Ot struct { .N: i32 };\nfn (o: &Ot) Peek() {\n    let v: St = {.Pub = 1, .hid = 2};\n    " + stmt("v", f) + "\n}\n"
			return map[string]string{"proj/m1.fer": prov, "proj/main.fer": c12Main(line, "", "let o: "+pre+"::Ot = {.N = 1};\n    o.Peek();")}
		})
		// method of its type, but through another value than the receiver
		fieldCase("own_method_other_value", false, func(f string) map[string]string {
			prov := c12Provider + "fn ident(a: i32) -> i32 { return a; }\nfn (s: &St) Peek(other: &'St) {\n    " + stmt("other", f) + "\n}\n"
			return map[string]string{"proj/m1.fer": prov, "proj/main.fer": c12Main(line, "", "let a: "+pre+"::St = "+pre+"::MkSt();\n    let b: "+pre+"::St = "+pre+"::MkSt();\n    a.Peek(&'b);")}
		})
		// inside a method of ANOTHER type whose receiver has the same name as a shadowing local / closure parameter
		fieldCase("other_type_method_local_shadows_receiver", false, func(f string) map[string]string {
			prov := c12Provider + "fn ident(a: i32) -> i32 { return a; }\ntype Ot struct { .N: i32 };\nfn (v: &Ot) Peek() {\n    if v.N > 0 {\n        let v: St = {.Pub = 1, .hid = 2};\n        " + stmt("v", f) + "\n    }\n}\n"
			return map[string]string{"proj/m1.fer": prov, "proj/main.fer": c12Main(line, "", "let o: "+pre+"::Ot = {.N = 1};\n    o.Peek();")}
		})
		fieldCase("other_type_method_closure_param_shadows_receiver", false, func(f string) map[string]string {
			prov := c12Provider + "fn ident(a: i32) -> i32 { return a; }\ntype Ot struct { .N: i32 };\nfn (v: &Ot) Peek() {\n    let g := fn(v: &'St) {\n        " + stmt("v", f) + "\n    };\n    io::Println(v.N);\n}\n"
			return map[string]string{"proj/m1.fer": prov, "proj/main.fer": c12Main(line, "", "let o: "+pre+"::Ot = {.N = 1};\n    o.Peek();")}
		})
		fieldCase("other_module_method_local_shadows_receiver", false, func(f string) map[string]string {
			decl := "fn ident(a: i32) -> i32 { return a; }\ntype Wm struct { .N: i32 };\nfn (v: &Wm) Peek() {\n    if v.N > 0 {\n        let v: " + pre + "::St = " + pre + "::MkSt();\n        " + stmt("v", f) + "\n    }\n}\n"
			return map[string]string{"proj/m1.fer": c12Provider, "proj/main.fer": c12Main(line, decl, "let w: Wm = {.N = 1};\n    w.Peek();")}
		})
		// allowed: through the receiver inside a method of the type (also from a closure there)
		fieldCase("own_method_receiver", true, func(f string) map[string]string {
			prov := c12Provider + "fn ident(a: i32) -> i32 { return a; }\nfn (s: &'St) Peek() {\n    " + stmt("s", f) + "\n}\n"
			return map[string]string{"proj/m1.fer": prov, "proj/main.fer": c12Main(line, "", "let a: "+pre+"::St = "+pre+"::MkSt();\n    a.Peek();")}
		})
	}
	// allowed: struct literals may initialise private fields (other module, several positions)
	for i, body := range []string{
		"let v: " + pre + "::St = {.Pub = 1, .hid = 2};\n    io::Println(v.Pub);",
		"let v := {.Pub = 1, .hid = 2} as " + pre + "::St;\n    io::Println(v.Pub);",
		"let a: [1]" + pre + "::St = [{.Pub = 1, .hid = 2}];\n    io::Println(a[0].Pub);",
		"let v: " + pre + "::St = " + pre + "::MkSt();\n    v = {.Pub = 3, .hid = 4};\n    io::Println(v.Sum());",
	} {
		out = append(out, &c12Case{Kind: "field", Site: "struct_literal_init", Ctx: fmt.Sprintf("position%d", i), Import: "plain", Allow: true,
			FilesV: map[string]string{"proj/m1.fer": c12Provider, "proj/main.fer": c12Main(line, "", body)}})
	}
	return out
}

func c12Exhaustive(env *core.Env) []any {
	var out []any
	for _, c := range c12All() {
		out = append(out, c)
	}
	return out
}

// the random part: the grid's cases embedded in a three-module project (the consumer is a middle
// module that main imports) and with a second, unrelated import
func c12Gen(t *rapid.T, env *core.Env) any {
	all := c12All()
	base := all[rapid.IntRange(0, len(all)-1).Draw(t, "case")]
	c := &c12Case{Kind: base.Kind, Site: base.Site, Ctx: base.Ctx, Import: base.Import + "+middle", Allow: base.Allow}
	shape := rapid.IntRange(0, 1).Draw(t, "shape")
	re := func(files map[string]string) map[string]string {
		if files == nil {
			return nil
		}
		out := map[string]string{"proj/m1.fer": files["proj/m1.fer"]}
		mid := strings.Replace(files["proj/main.fer"], "fn main() {", "fn Run() {", 1)
		switch shape {
		case 0: // main -> m2 (consumer) -> m1
			out["proj/m2.fer"] = mid
			out["proj/main.fer"] = "import \"proj/m2\";\n\nfn main() {\n    m2::Run();\n}\n"
		default: // main -> m2 (consumer) -> m1, and main -> m1 as well; m3 unrelated
			out["proj/m2.fer"] = mid
			out["proj/m3.fer"] = "fn Other() -> i32 { return 1; }\nfn other() -> i32 { return 2; }\n"
			out["proj/main.fer"] = "import \"std/io\";\nimport \"proj/m3\";\nimport \"proj/m2\";\nimport \"proj/m1\";\n\nfn main() {\n    m2::Run();\n    io::Println(m3::Other(), m1::Kc);\n}\n"
		}
		return out
	}
	c.FilesV = re(base.FilesV)
	c.FilesT = re(base.FilesT)
	return c
}

func c12Compile(env *core.Env, dir string, files map[string]string) *sut.CompileResult {
	sut.WriteProject(dir, files)
	return tcOf(env).Compile(filepath.Join(dir, "proj"), sut.CompileOpts{TypeOnly: true})
}

func c12Show(files map[string]string) string {
	var b strings.Builder
	for _, n := range []string{"proj/main.fer", "proj/m2.fer", "proj/m1.fer"} {
		if s, ok := files[n]; ok {
			b.WriteString("--- " + n + " ---\n" + s + "\n")
		}
	}
	return b.String()
}

func c12Check(env *core.Env, ci any) (res core.Result) {
	c := ci.(*c12Case)
	dir := env.NextDir()
	res.Key = c.Kind + "|" + c.Site + "|" + c.Ctx + "|" + c.Import
	res.Labels = append(res.Labels, "kind:"+c.Kind, "site:"+c.Kind+"/"+c.Site, "ctx:"+c.Ctx, "import:"+c.Import)
	if c.Allow {
		r := c12Compile(env, filepath.Join(dir, "variant"), c.FilesV)
		if r.TimedOut || r.Crash != "" {
			res.Discard = "compiler crash/hang (C13's matter)"
			return
		}
		res.NonTrivial = true
		res.Labels = append(res.Labels, "allowed_use")
		if r.Exit != 0 || len(r.Errors()) > 0 {
			msg := ""
			if es := r.Errors(); len(es) > 0 {
				msg = es[0].Msg
			}
			// only a visibility complaint is this property's matter
			if strings.Contains(msg, "private") || strings.Contains(msg, "not exported") {
				res.Violation = fmt.Sprintf("an allowed use of a private field is rejected (%s / %s): %s\n%s", c.Site, c.Ctx, msg, c12Show(c.FilesV))
				res.VKey = "allowed_use_rejected:" + c.Site
				return
			}
			res.NonTrivial = false
			res.Discard = "allowed-use program rejected for another reason"
			res.Labels = append(res.Labels, "allowed_rejected_other:"+c.Site+"/"+c.Ctx)
		}
		return
	}
	rt := c12Compile(env, filepath.Join(dir, "twin"), c.FilesT)
	if rt.TimedOut || rt.Crash != "" {
		res.Discard = "compiler crash/hang (C13's matter)"
		return
	}
	if rt.Exit != 0 || len(rt.Errors()) > 0 {
		msg := ""
		if es := rt.Errors(); len(es) > 0 {
			msg = es[0].Msg
			if strings.Contains(msg, "private") || strings.Contains(msg, "not exported") {
				res.Violation = fmt.Sprintf("an exported symbol / uppercase field is reported as inaccessible (%s/%s in %s): %s\n%s", c.Kind, c.Site, c.Ctx, msg, c12Show(c.FilesT))
				res.VKey = "exported_rejected:" + c.Kind + ":" + c.Site
				return
			}
			w := strings.Fields(identRe.ReplaceAllString(msg, "'X'"))
			if len(w) > 5 {
				w = w[:5]
			}
			msg = strings.Join(w, "_")
		}
		res.Discard = "control twin (exported symbol) rejected: site not expressible"
		res.Labels = append(res.Labels, "twin_rejected:"+c.Kind+"/"+c.Site+"/"+c.Ctx+":"+msg)
		return
	}
	rv := c12Compile(env, filepath.Join(dir, "variant"), c.FilesV)
	if rv.TimedOut || rv.Crash != "" {
		res.Discard = "compiler crash/hang (C13's matter)"
		return
	}
	res.NonTrivial = true
	if rv.Exit == 0 && len(rv.Errors()) == 0 {
		res.Violation = fmt.Sprintf("a private symbol is accessible: kind=%s site=%s context=%s import=%s\n%s", c.Kind, c.Site, c.Ctx, c.Import, c12Show(c.FilesV))
		res.VKey = "private_accessible:" + c.Kind + ":" + c.Site
		return
	}
	res.Sample = fmt.Sprintf("%q", fmt.Sprintf("[%s/%s in %s, %s] rejected: %s", c.Kind, c.Site, c.Ctx, c.Import, func() string {
		if es := rv.Errors(); len(es) > 0 {
			return es[0].Msg
		}
		return "?"
	}()))
	return
}

func init() {
	core.Register(&core.Prop{
		ID: "C12",
		Rule: fmt.Sprintf("exhaustive product (%d projects): symbol kind (function, constant, module variable, struct type, enum type; each as an exported/private twin in the provider module) x access site (call, read, function as value, assignment / op= / borrow of a module variable, type named in annotation, cast target, parameter / &T / &'T parameter, return, array element, dynamic array element, optional, field of a local type declaration, closure parameter, result type; enum variant value, comparison, annotation, match pattern) x %d syntactic contexts for expression sites (call argument, let / const initialiser, condition, else-if, while, match scrutinee, return, closure body, range bounds, index, struct-literal field, array element, catch fallback and handler, ?? default, unary, paren, cast, assignment right-hand sides, comparison / logical operand, method argument, method body, nested blocks) x import form (plain, alias, capitalised alias); field access forms (read, in expression, write, op=, ++, borrow, &' borrow, paren, condition, call argument, closure) x place (other module function, other module through &', same module function, method of another type, own method through another value; allowed: own method through the receiver, struct literals in 4 positions). rapid part: the same cases with the consumer as a middle module of a 3-4 module project. Oracle: private => `ferret -t` reports an error; control twin with the exported twin symbol / uppercase field => accepted (otherwise discarded as not expressible; a visibility error on the twin is itself a violation); allowed uses => accepted. non-trivial = twin accepted; distinct = (kind, site, context, import form)", len(c12All()), len(c12ExprCtxs)),
		Gen:        c12Gen,
		New:        func() any { return &c12Case{} },
		Check:      c12Check,
		Exhaustive: c12Exhaustive,
		Assumptions: []string{
			"methods are not part of the property statement (functions, constants, variables, types, fields): calling a lowercase method from another module is not asserted either way",
			"a private type reached without naming it (value returned by an exported function) is not asserted either way",
		},
	})
}
