package props

// C06 — immutable bindings cannot be modified.
// Product generator: immutable place kind x access path x mutation form x syntactic
// context.  The variant (immutable binding) must be rejected by `ferret -t`; the control
// twin — the same program with the binding made mutable — must be accepted, which shows
// that path, form and context are well-formed and that the rejection is about mutability.

import (
	"fmt"
	"path/filepath"
	"strings"

	"compiler/verifharness/core"
	"compiler/verifharness/sut"

	"pgregory.net/rapid"
)

type c06Case struct {
	Variant string `json:"variant"`
	Twin    string `json:"twin"`
	Kind    string `json:"kind"`
	Path    string `json:"path"`
	Form    string `json:"form"`
	Ctx     string `json:"ctx"`
}

func (c *c06Case) Files() map[string]string {
	return map[string]string{"variant/main.fer": c.Variant, "twin/main.fer": c.Twin}
}

const c06Prelude = `import "std/io";

type Q struct { .A: i32, .Arr: [2]i32 };
type P struct { .X: i32, .Y: i64, .In: Q };

fn (p: &'P) poke() { p.X = 41; }
fn (q: &'Q) poke() { q.A = 42; }
fn (p: &P) peek() -> i32 { return p.X; }
fn bump(x: &'i32) { let c: i32 = x; x = c + 1; }
fn bumpP(x: &'P) { x.X = 43; }
fn bumpQ(x: &'Q) { x.A = 44; }
fn bumpA3(x: &'[3]i32) { x[0] = 45; }
fn bumpA2(x: &'[2]i32) { x[0] = 46; }
fn bumpD(x: &'[]i32) { append(x, 47); }
fn mayfail(x: i32) -> i32 ! i32 {
    if x > 0 { return 7!; }
    return x;
}
fn mayfailP(x: i32) -> P ! i32 {
    let pe: P = {.X = 1, .Y = 2, .In = {.A = 3, .Arr = [4, 5]}};
    if x > 0 { return pe!; }
    return x;
}
`

const (
	c06PLit  = "{.X = 1, .Y = 2, .In = {.A = 3, .Arr = [4, 5]}}"
	c06PLit2 = "{.X = 9, .Y = 9, .In = {.A = 9, .Arr = [9, 9]}}"
	c06QLit2 = "{.A = 9, .Arr = [9, 9]}"
)

type c06Path struct {
	tmpl string // %s = root
	leaf string // i32 | P | Q | A3 | A2 | D
	name string
}

var c06Paths = map[string][]c06Path{
	"i32": {{"%s", "i32", "ident"}, {"(%s)", "i32", "paren"}},
	"P": {{"%s", "P", "ident"}, {"%s.X", "i32", "field"}, {"%s.In", "Q", "field"}, {"%s.In.A", "i32", "field.field"}, {"%s.In.Arr[1]", "i32", "field.field.index"},
		{"(%s).X", "i32", "paren.field"}, {"(%s.In).A", "i32", "paren(field).field"}, {"%s.In.Arr", "A2", "field.field(array)"}, {"%s.In.Arr[-1]", "i32", "field.field.negindex"}},
	"A3":  {{"%s", "A3", "ident"}, {"%s[0]", "i32", "index"}, {"%s[-1]", "i32", "negindex"}, {"(%s)[2]", "i32", "paren.index"}},
	"AP":  {{"%s[0]", "P", "index"}, {"%s[1].X", "i32", "index.field"}, {"%s[0].In.A", "i32", "index.field.field"}, {"%s[1].In.Arr[0]", "i32", "index.field.field.index"}},
	"D":   {{"%s[0]", "i32", "index"}, {"%s", "D", "ident"}, {"%s[-1]", "i32", "negindex"}},
	"ri32": {{"%s", "i32", "ident"}},
}

type c06Form struct {
	name string
	stmt func(place string) string
}

var c06Forms = map[string][]c06Form{
	"i32": {
		{"assign", func(p string) string { return p + " = 7;" }},
		{"compound+=", func(p string) string { return p + " += 2;" }},
		{"compound-=", func(p string) string { return p + " -= 2;" }},
		{"compound*=", func(p string) string { return p + " *= 2;" }},
		{"inc", func(p string) string { return p + "++;" }},
		{"dec", func(p string) string { return p + "--;" }},
		{"mutborrow", func(p string) string { return "let m := &'" + p + ";" }},
		{"mutborrow_typed", func(p string) string { return "let m: &'i32 = &'" + p + ";" }},
		{"pass_mutref", func(p string) string { return "bump(&'" + p + ");" }},
	},
	"P": {
		{"assign", func(p string) string { return p + " = " + c06PLit2 + ";" }},
		{"mutborrow", func(p string) string { return "let m := &'" + p + ";" }},
		{"pass_mutref", func(p string) string { return "bumpP(&'" + p + ");" }},
		{"mut_method", func(p string) string { return p + ".poke();" }},
	},
	"Q": {
		{"assign", func(p string) string { return p + " = " + c06QLit2 + ";" }},
		{"mutborrow", func(p string) string { return "let m := &'" + p + ";" }},
		{"pass_mutref", func(p string) string { return "bumpQ(&'" + p + ");" }},
		{"mut_method", func(p string) string { return p + ".poke();" }},
	},
	"A3": {
		{"assign", func(p string) string { return p + " = [7, 8, 9];" }},
		{"mutborrow", func(p string) string { return "let m := &'" + p + ";" }},
		{"pass_mutref", func(p string) string { return "bumpA3(&'" + p + ");" }},
	},
	"A2": {
		{"assign", func(p string) string { return p + " = [7, 8];" }},
		{"mutborrow", func(p string) string { return "let m := &'" + p + ";" }},
		{"pass_mutref", func(p string) string { return "bumpA2(&'" + p + ");" }},
	},
	"D": {
		{"assign", func(p string) string { return p + " = [7];" }},
		{"append", func(p string) string { return "append(&'" + p + ", 4);" }},
		{"pass_mutref", func(p string) string { return "bumpD(&'" + p + ");" }},
	},
}

type c06Ctx struct {
	name string
	wrap func(m string) string
}

// c06Nest applies several contexts inside out; helper variables of the i-th context get
// the suffix i so that nested contexts do not redeclare each other's names.
func c06Nest(m string, ctxs []c06Ctx) string {
	for i, c := range ctxs {
		w := c.wrap(m)
		if i > 0 {
			suf := fmt.Sprint(i)
			for _, v := range []string{"n0", "k0", "k1", "f0"} {
				w = strings.ReplaceAll(w, v, v+"_"+suf)
			}
		}
		m = w
	}
	return m
}

var c06Ctxs = []c06Ctx{
	{"plain", func(m string) string { return m }},
	{"if", func(m string) string { return "if flag > 0 { " + m + " }" }},
	{"else", func(m string) string { return "if flag > 5 { io::Println(0); } else { " + m + " }" }},
	{"while", func(m string) string { return "let n0: i32 = 0;\n    while n0 < 1 { n0 = n0 + 1; " + m + " }" }},
	{"for_range", func(m string) string { return "for k0 in 0..1 { " + m + " }" }},
	{"match_arm", func(m string) string { return "match flag { 1 => { " + m + " } _ => { io::Println(0); } }" }},
	{"match_default", func(m string) string { return "match flag { 9 => { io::Println(0); } _ => { " + m + " } }" }},
	{"closure", func(m string) string { return "let f0 := fn() { " + m + " };\n    f0();" }},
	{"block", func(m string) string { return "{ " + m + " }" }},
	{"nested", func(m string) string { return "if flag > 0 { for k1 in 0..1 { " + m + " } }" }},
}

// c06Build returns (variant, twin) for a binding kind; mut = the wrapped mutation text with the root name R.
type c06Kind struct {
	name string
	root string // root type key in c06Paths
	// build(mutation, immutable) -> program text
	build func(m string, imm bool, printRoot string) string
	rootName string
	print    string // expression printing the root's observable value
}

func c06KW(imm bool) string {
	if imm {
		return "const"
	}
	return "let"
}
func c06Ref(imm bool) string {
	if imm {
		return "&"
	}
	return "&'"
}

func c06Simple(decl func(imm bool) string, print string) func(m string, imm bool, _ string) string {
	return func(m string, imm bool, _ string) string {
		return c06Prelude + "\nfn site(flag: i32) {\n    " + decl(imm) + "\n    " + m + "\n    io::Println(" + print + ");\n}\n\nfn main() {\n    site(1);\n}\n"
	}
}

var c06Kinds = []c06Kind{
	{name: "const_scalar", root: "i32", rootName: "c", print: "c", build: c06Simple(func(imm bool) string { return c06KW(imm) + " c: i32 = 5;" }, "c")},
	{name: "const_struct", root: "P", rootName: "s", print: "s.X, s.In.A, s.In.Arr[1]", build: c06Simple(func(imm bool) string { return c06KW(imm) + " s: P = " + c06PLit + ";" }, "s.X, s.In.A, s.In.Arr[1]")},
	{name: "const_fixed_array", root: "A3", rootName: "a", print: "a[0], a[2]", build: c06Simple(func(imm bool) string { return c06KW(imm) + " a: [3]i32 = [1, 2, 3];" }, "a[0], a[2]")},
	{name: "const_array_of_structs", root: "AP", rootName: "ap", print: "ap[0].X, ap[1].X", build: c06Simple(func(imm bool) string {
		return c06KW(imm) + " ap: [2]P = [" + c06PLit + ", " + c06PLit + "];"
	}, "ap[0].X, ap[1].X")},
	{name: "const_dyn_array", root: "D", rootName: "d", print: "d[0], len(d)", build: c06Simple(func(imm bool) string { return c06KW(imm) + " d: []i32 = [1, 2, 3];" }, "d[0], len(d)")},
	{name: "const_in_method", root: "P", rootName: "s", print: "s.X", build: func(m string, imm bool, _ string) string {
		return c06Prelude + "\nfn (q: &Q) site(flag: i32) {\n    " + c06KW(imm) + " s: P = " + c06PLit + ";\n    " + m + "\n    io::Println(s.X, q.A);\n}\n\nfn main() {\n    let q0: Q = {.A = 1, .Arr = [1, 2]};\n    q0.site(1);\n}\n"
	}},
	{name: "for_index", root: "i32", rootName: "i", print: "i", build: func(m string, imm bool, _ string) string {
		loop := "for i, v in arr {\n        " + m + "\n        io::Println(i, v);\n    }"
		if !imm {
			loop = "for _, v in arr {\n        let i: i32 = 0;\n        " + m + "\n        io::Println(i, v);\n    }"
		}
		return c06Prelude + "\nfn site(flag: i32) {\n    let arr: []i32 = [4, 5, 6];\n    " + loop + "\n}\n\nfn main() {\n    site(1);\n}\n"
	}},
	{name: "for_index_shadows_local", root: "i32", rootName: "i", print: "i", build: func(m string, imm bool, _ string) string {
		loop := "for i, v in arr {\n        " + m + "\n        io::Println(i, v);\n    }"
		if !imm {
			loop = "for _, v in arr {\n        let i: i32 = 0;\n        " + m + "\n        io::Println(i, v);\n    }"
		}
		return c06Prelude + "\nfn site(flag: i32) {\n    let arr: []i32 = [4, 5, 6];\n    let i: i32 = 100;\n    io::Println(i);\n    " + loop + "\n}\n\nfn main() {\n    site(1);\n}\n"
	}},
	{name: "for_index_shadows_param", root: "i32", rootName: "i", print: "i", build: func(m string, imm bool, _ string) string {
		loop := "for i, v in arr {\n        " + m + "\n        io::Println(i, v);\n    }"
		if !imm {
			loop = "for _, v in arr {\n        let i: i32 = 0;\n        " + m + "\n        io::Println(i, v);\n    }"
		}
		return c06Prelude + "\nfn site(flag: i32, i: i32) {\n    let arr: []i32 = [4, 5, 6];\n    io::Println(i);\n    " + loop + "\n}\n\nfn main() {\n    site(1, 50);\n}\n"
	}},
	{name: "for_index_nested_same_name", root: "i32", rootName: "i", print: "i", build: func(m string, imm bool, _ string) string {
		loop := "for i, v in arr {\n        " + m + "\n        io::Println(i, v);\n    }"
		if !imm {
			loop = "for _, v in arr {\n        let i: i32 = 0;\n        " + m + "\n        io::Println(i, v);\n    }"
		}
		return c06Prelude + "\nfn site(flag: i32) {\n    let arr: []i32 = [4, 5, 6];\n    for i, w in arr {\n        io::Println(i, w);\n        " + strings.ReplaceAll(loop, "\n", "\n    ") + "\n    }\n}\n\nfn main() {\n    site(1);\n}\n"
	}},
	{name: "catch_var_shadows_local", root: "i32", rootName: "e", print: "e", build: func(m string, imm bool, _ string) string {
		h := "catch e {\n        " + m + "\n        io::Println(e);\n    } 0"
		if !imm {
			h = "catch e0 {\n        let e: i32 = e0;\n        " + m + "\n        io::Println(e);\n    } 0"
		}
		return c06Prelude + "\nfn site(flag: i32) {\n    let e: i32 = 77;\n    io::Println(e);\n    let r0: i32 = mayfail(1) " + h + ";\n    io::Println(r0);\n}\n\nfn main() {\n    site(1);\n}\n"
	}},
	{name: "catch_var", root: "i32", rootName: "e", print: "e", build: func(m string, imm bool, _ string) string {
		h := "catch e {\n        " + m + "\n        io::Println(e);\n    } 0"
		if !imm {
			h = "catch e0 {\n        let e: i32 = e0;\n        " + m + "\n        io::Println(e);\n    } 0"
		}
		return c06Prelude + "\nfn site(flag: i32) {\n    let r0: i32 = mayfail(1) " + h + ";\n    io::Println(r0);\n}\n\nfn main() {\n    site(1);\n}\n"
	}},
	{name: "catch_var_struct", root: "P", rootName: "e", print: "e.X, e.In.A, e.In.Arr[1]", build: func(m string, imm bool, _ string) string {
		h := "catch e {\n        " + m + "\n        io::Println(e.X, e.In.A, e.In.Arr[1]);\n    } 0"
		if !imm {
			h = "catch e0 {\n        let e: P = e0;\n        " + m + "\n        io::Println(e.X, e.In.A, e.In.Arr[1]);\n    } 0"
		}
		return c06Prelude + "\nfn site(flag: i32) {\n    let r0: i32 = mayfailP(1) " + h + ";\n    io::Println(r0);\n}\n\nfn main() {\n    site(1);\n}\n"
	}},
	{name: "ref_param_struct", root: "P", rootName: "r", print: "r.X", build: func(m string, imm bool, _ string) string {
		return c06Prelude + "\nfn site(r: " + c06Ref(imm) + "P, flag: i32) {\n    " + m + "\n    io::Println(r.X, r.In.A);\n}\n\nfn main() {\n    let s: P = " + c06PLit + ";\n    site(" + c06Ref(imm) + "s, 1);\n    io::Println(s.X, s.In.A, s.In.Arr[1]);\n}\n"
	}},
	{name: "ref_param_array", root: "A3", rootName: "r", print: "r[0]", build: func(m string, imm bool, _ string) string {
		return c06Prelude + "\nfn site(r: " + c06Ref(imm) + "[3]i32, flag: i32) {\n    " + m + "\n    io::Println(r[0]);\n}\n\nfn main() {\n    let a: [3]i32 = [1, 2, 3];\n    site(" + c06Ref(imm) + "a, 1);\n    io::Println(a[0], a[2]);\n}\n"
	}},
	{name: "ref_param_scalar", root: "ri32", rootName: "r", print: "r", build: func(m string, imm bool, _ string) string {
		return c06Prelude + "\nfn site(r: " + c06Ref(imm) + "i32, flag: i32) {\n    " + m + "\n    io::Println(r);\n}\n\nfn main() {\n    let x: i32 = 5;\n    site(" + c06Ref(imm) + "x, 1);\n    io::Println(x);\n}\n"
	}},
	{name: "ref_param_dyn", root: "D", rootName: "r", print: "r[0]", build: func(m string, imm bool, _ string) string {
		return c06Prelude + "\nfn site(r: " + c06Ref(imm) + "[]i32, flag: i32) {\n    " + m + "\n    io::Println(r[0]);\n}\n\nfn main() {\n    let d: []i32 = [1, 2, 3];\n    site(" + c06Ref(imm) + "d, 1);\n    io::Println(d[0], len(d));\n}\n"
	}},
	{name: "ref_receiver", root: "P", rootName: "r", print: "r.X", build: func(m string, imm bool, _ string) string {
		return c06Prelude + "\nfn (r: " + c06Ref(imm) + "P) site(flag: i32) {\n    " + m + "\n    io::Println(r.X, r.In.A);\n}\n\nfn main() {\n    let s: P = " + c06PLit + ";\n    s.site(1);\n    io::Println(s.X, s.In.A, s.In.Arr[1]);\n}\n"
	}},
	{name: "ref_local", root: "P", rootName: "r", print: "r.X", build: func(m string, imm bool, _ string) string {
		return c06Prelude + "\nfn site(flag: i32) {\n    let s: P = " + c06PLit + ";\n    let r: " + c06Ref(imm) + "P = " + c06Ref(imm) + "s;\n    " + m + "\n    io::Println(r.X, r.In.A);\n}\n\nfn main() {\n    site(1);\n}\n"
	}},
	{name: "ref_local_array", root: "A3", rootName: "r", print: "r[0]", build: func(m string, imm bool, _ string) string {
		return c06Prelude + "\nfn site(flag: i32) {\n    let a: [3]i32 = [1, 2, 3];\n    let r: " + c06Ref(imm) + "[3]i32 = " + c06Ref(imm) + "a;\n    " + m + "\n    io::Println(r[0]);\n}\n\nfn main() {\n    site(1);\n}\n"
	}},
}

func c06Gen(t *rapid.T, env *core.Env) any {
	k := c06Kinds[rapid.IntRange(0, len(c06Kinds)-1).Draw(t, "kind")]
	paths := c06Paths[k.root]
	p := paths[rapid.IntRange(0, len(paths)-1).Draw(t, "path")]
	forms := c06Forms[p.leaf]
	f := forms[rapid.IntRange(0, len(forms)-1).Draw(t, "form")]
	// the exhaustive part covers every single context; the random part nests 2-3 of them and
	// surrounds the mutation with unrelated statements
	n := rapid.IntRange(2, 3).Draw(t, "depth")
	var ctxs []c06Ctx
	var names []string
	for i := 0; i < n; i++ {
		c := c06Ctxs[rapid.IntRange(1, len(c06Ctxs)-1).Draw(t, "ctx")]
		ctxs = append(ctxs, c)
		names = append([]string{c.name}, names...)
	}
	place := fmt.Sprintf(p.tmpl, k.rootName)
	stmt := f.stmt(place)
	switch rapid.IntRange(0, 3).Draw(t, "around") {
	case 1:
		stmt = "io::Println(flag); " + stmt
	case 2:
		stmt = stmt + " io::Println(flag);"
	case 3:
		stmt = "let pad: i32 = flag + 1; " + stmt + " io::Println(pad);"
	}
	m := c06Nest(stmt, ctxs)
	return &c06Case{Variant: k.build(m, true, k.print), Twin: k.build(m, false, k.print), Kind: k.name, Path: p.name, Form: f.name, Ctx: strings.Join(names, ">")}
}

func c06Exhaustive(env *core.Env) []any {
	var out []any
	for _, k := range c06Kinds {
		for _, p := range c06Paths[k.root] {
			for _, f := range c06Forms[p.leaf] {
				for _, ctx := range c06Ctxs {
					place := fmt.Sprintf(p.tmpl, k.rootName)
					m := ctx.wrap(f.stmt(place))
					out = append(out, &c06Case{Variant: k.build(m, true, k.print), Twin: k.build(m, false, k.print), Kind: k.name, Path: p.name, Form: f.name, Ctx: ctx.name})
				}
			}
		}
	}
	return out
}

func c06Check(env *core.Env, ci any) (res core.Result) {
	c := ci.(*c06Case)
	tc := tcOf(env)
	dir := env.NextDir()
	res.Key = c.Kind + "|" + c.Path + "|" + c.Form + "|" + c.Ctx
	res.Labels = append(res.Labels, "kind:"+c.Kind, "form:"+c.Form, "ctx:"+c.Ctx, "path:"+c.Path)
	td := filepath.Join(dir, "twin")
	sut.WriteProject(td, map[string]string{"main.fer": c.Twin})
	rt := tc.Compile(td, sut.CompileOpts{TypeOnly: true})
	if rt.TimedOut || rt.Crash != "" {
		res.Discard = "compiler crash/hang (C13's matter)"
		return
	}
	if rt.Exit != 0 || len(rt.Errors()) > 0 {
		// the mutation is not expressible even on a mutable binding: nothing to learn about immutability
		msg := ""
		if es := rt.Errors(); len(es) > 0 {
			w := strings.Fields(identRe.ReplaceAllString(es[0].Msg, "'X'"))
			if len(w) > 5 {
				w = w[:5]
			}
			msg = strings.Join(w, "_")
		}
		res.Discard = "control twin rejected"
		res.Labels = append(res.Labels, "twin_rejected:"+c.Kind+"/"+c.Path+"/"+c.Form+":"+msg)
		return
	}
	vd := filepath.Join(dir, "variant")
	sut.WriteProject(vd, map[string]string{"main.fer": c.Variant})
	rv := tc.Compile(vd, sut.CompileOpts{TypeOnly: true})
	if rv.TimedOut || rv.Crash != "" {
		res.Discard = "compiler crash/hang (C13's matter)"
		return
	}
	res.NonTrivial = true
	if rv.Exit == 0 && len(rv.Errors()) == 0 {
		// show the effect: build and run
		exe := filepath.Join(vd, "out.bin")
		rn := tc.Compile(vd, sut.CompileOpts{Out: exe})
		effect := "(native build failed: " + firstLines(rn.Out, 3) + ")"
		if rn.OK() && fileExists(exe) {
			run := sut.RunNative(exe, 0)
			effect = "the executable prints: " + strings.ReplaceAll(strings.TrimSpace(run.Stdout), "\n", " | ") + " (" + run.Term() + ")"
		}
		res.Violation = fmt.Sprintf("a mutation of an immutable place is accepted: kind=%s path=%s form=%s context=%s; %s\n--- program ---\n%s", c.Kind, c.Path, c.Form, c.Ctx, effect, c.Variant)
		res.VKey = "mutation_accepted:" + c.Kind + ":" + c.Form
		return
	}
	res.Sample = fmt.Sprintf("%q", fmt.Sprintf("[%s %s %s %s] rejected: %s", c.Kind, c.Path, c.Form, c.Ctx, func() string {
		if es := rv.Errors(); len(es) > 0 {
			return es[0].Code + " " + es[0].Msg
		}
		return "?"
	}()))
	return
}

func init() {
	total := 0
	for _, k := range c06Kinds {
		for _, p := range c06Paths[k.root] {
			total += len(c06Forms[p.leaf]) * len(c06Ctxs)
		}
	}
	core.Register(&core.Prop{
		ID: "C06",
		Rule: fmt.Sprintf("product generator (rapid): immutable place kind (const scalar / struct / fixed array / array of structs / dynamic array, const inside a method, index variable of a two-variable for loop - also when its name shadows an outer local, parameter or loop index -, catch error variable - scalar or struct-typed, also shadowing a local -, &T parameter of struct / array / scalar / dynamic array type, &T receiver, local &T to a struct / array) x access path (ident, paren, field chains, constant and negative index, combinations up to depth 4) x mutation form (=, += -= *=, ++ --, &' borrow typed and inferred, passing &' to a &' parameter, calling a &'-receiver method, append) x context (plain, if, else, while, for-range, match arm, match default, closure body, block, nested) = %d combinations. Oracle: `ferret -t` rejects the program with an error; control twin = the same program with the binding made mutable (let, &'T, a local stand-in for loop index / catch variable) must be accepted, otherwise the case is discarded as not expressible. non-trivial = twin accepted (the rejection can only be about mutability); distinct = (kind, path, form, context)", total),
		Gen:        c06Gen,
		New:        func() any { return &c06Case{} },
		Check:      c06Check,
		Exhaustive: c06Exhaustive,
		Assumptions: []string{
			"a rejection of the variant is attributed to immutability because the twin differs only in the mutability of the binding",
		},
	})
}
