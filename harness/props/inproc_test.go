package props

// In-process compilation for the native fuzzing tier: the fuzz worker calls
// compiler.Compile itself (the function main.go calls), so that Go's coverage
// instrumentation of the compiler packages guides the mutation engine.  Output is captured
// by redirecting fd 1/2 to a file for the duration of the call, as cmd/ferretd does.
// Every violation found this way is re-decided through the real CLI (confirm()).

import (
	"fmt"
	"os"
	"path/filepath"
	"runtime/debug"
	"strings"
	"sync"
	"syscall"
	"time"

	"compiler/colors"
	"compiler/internal/compiler"
	"compiler/verifharness/sut"
)

var inprocMu sync.Mutex

func inprocCompile(dir string, o sut.CompileOpts) *sut.CompileResult {
	// only what needs no child process: type check and wasm
	if !(o.TypeOnly || o.Target == "wasm") {
		return nil
	}
	inprocMu.Lock()
	defer inprocMu.Unlock()
	capture := filepath.Join(dir, ".inproc.out")
	f, err := os.Create(capture)
	if err != nil {
		return nil
	}
	save1, _ := syscall.Dup(1)
	save2, _ := syscall.Dup(2)
	syscall.Dup2(int(f.Fd()), 1)
	syscall.Dup2(int(f.Fd()), 2)
	entry := o.Entry
	if entry == "" {
		entry = "main.fer"
	}
	if !filepath.IsAbs(entry) {
		entry = filepath.Join(dir, entry)
	}
	backend := "qbe"
	if o.Target == "wasm" {
		backend = "wasm"
	}
	wd, _ := os.Getwd()
	os.Chdir(dir)
	os.Setenv("FERRET_LIBS_PATH", filepath.Join(env.Toolchain, "libs"))
	r := &sut.CompileResult{}
	t0 := time.Now()
	func() {
		defer func() {
			if p := recover(); p != nil {
				fmt.Fprintf(os.Stderr, "panic: %v\n\ngoroutine 1 [running]:\n%s\n", p, debug.Stack())
				r.Exit = 2
				r.Crash = "panic"
			}
		}()
		res := compiler.Compile(&compiler.Options{EntryFile: entry, LogFormat: compiler.ANSI, OutputExecutable: o.Out,
			KeepGenFiles: o.KeepGen, SkipCodegen: o.TypeOnly, CodegenBackend: backend})
		if !res.Success {
			colors.RED.Println(res.Output)
			r.Exit = 1
		}
	}()
	r.Wall = time.Since(t0)
	os.Stdout.Sync()
	os.Chdir(wd)
	syscall.Dup2(save1, 1)
	syscall.Dup2(save2, 2)
	syscall.Close(save1)
	syscall.Close(save2)
	f.Close()
	b, _ := os.ReadFile(capture)
	os.Remove(capture)
	r.Out = sut.StripANSI(string(b))
	if r.Crash != "" {
		if cs := sut.CrashSite(r.Out); cs != "" {
			r.Crash = cs
		} else {
			r.Crash = "panic:" + strings.SplitN(r.Out, "\n", 2)[0]
		}
	}
	r.Diags = sut.ParseDiags(r.Out)
	return r
}
