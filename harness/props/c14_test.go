package props

// C14 — compilation is deterministic under every schedule.
// Metamorphic oracle: the same project compiled K times by the real CLI (fresh
// process each time) under different GOMAXPROCS values and hook-imposed module
// schedules must give the same exit status, the same diagnostics in the same
// order and byte-identical generated code (QBE IL per module / the .wasm file).

import (
	"crypto/sha256"
	"fmt"
	"os"
	"path/filepath"
	"sort"
	"strings"
	"time"

	"compiler/verifharness/core"
	"compiler/verifharness/sut"

	"pgregory.net/rapid"
)

type c14Case struct {
	Src    map[string]string `json:"files"`  // relative to proj/
	Target string            `json:"target"` // check | wasm | native
	Scheds []c15Sched        `json:"scheds"`
	NErr   int               `json:"nerr"`
}

func (c *c14Case) Files() map[string]string {
	m := map[string]string{}
	for k, v := range c.Src {
		m["proj/"+k] = v
	}
	return m
}

// building blocks of a module; %M = module index, %K = item index
var c14Items = []string{
	"type S%M_%K struct { .A: i32, .B: i64 };\nfn Get%M_%K() -> i64 { let s: S%M_%K = {.A = %K, .B = %M}; return s.B + 1; }",
	"type E%M_%K enum { V0, V1, V2 };\nfn Pick%M_%K(e: E%M_%K) -> i32 { match e { E%M_%K::V0 => { return 10; } E%M_%K::V1 => { return 11; } _ => { return 12; } } }\nfn Get%M_%K() -> i64 { return Pick%M_%K(E%M_%K::V1) as i64; }",
	"fn Get%M_%K() -> i64 { let f := fn(y: i64) -> i64 { return y + %K; }; let g := fn(y: i64) -> i64 { return y * 2; }; return f(1) + g(%M); }",
	"fn Str%M_%K() -> str { return \"text-%M-%K\"; }\nfn Get%M_%K() -> i64 { return len(Str%M_%K()) as i64; }",
	"fn Div%M_%K(a: i64, b: i64) -> str ! i64 { if b == 0 { return \"zero-%M-%K\"!; } return a / b; }\nfn Get%M_%K() -> i64 { let r := Div%M_%K(%K, 0) catch 7; return r; }",
	"fn Get%M_%K() -> i64 { let a := [1, 2, %K]; let s: i64 = 0; for v in a { s = s + (v as i64); } return s; }",
	"fn Get%M_%K() -> i64 { let x: i64 = %K; let i: i64 = 0; while i < 3 { x = x * 3 + %M; i = i + 1; } return x; }",
	"fn Get%M_%K() -> i64 { const c: i64 = %K%M; return c + 1; }",
	// several vtables / type-ID globals in one module (their order in the generated code must not depend on map iteration)
	"type Sh%M_%K interface { area() -> i64, };\ntype Nm%M_%K interface { id() -> i64, };\ntype Pt%M_%K struct { .X: i64 };\ntype Bx%M_%K struct { .W: i64, .H: i64 };\nfn (p: Pt%M_%K) area() -> i64 { return p.X; }\nfn (b: Bx%M_%K) area() -> i64 { return b.W * b.H; }\nfn (p: Pt%M_%K) id() -> i64 { return 1; }\nfn (b: Bx%M_%K) id() -> i64 { return 2; }\nfn Get%M_%K() -> i64 { let p: Pt%M_%K = {.X = %K}; let b: Bx%M_%K = {.W = 2, .H = %M}; let s1: Sh%M_%K = p; let s2: Sh%M_%K = b; let n1: Nm%M_%K = p; let n2: Nm%M_%K = b; return s1.area() + s2.area() + n1.id() + n2.id(); }",
	"type An%M_%K interface {};\nfn Kind%M_%K(a: An%M_%K) -> i64 { if a is i32 { return 1; } if a is str { return 4; } if a is bool { return 5; } if a is i64 { return 2; } return 0; }\nfn Get%M_%K() -> i64 { let a1: An%M_%K = %K; let a2: An%M_%K = \"s\"; let a3: An%M_%K = true; return Kind%M_%K(a1) + Kind%M_%K(a2) + Kind%M_%K(a3); }",
}

// error injections appended as extra declarations (several diagnostics may share one line)
var c14Errors = []string{
	"fn Bad%M_%K() -> i64 { return zz%K + yy%K + xx%K; }",
	"fn Bad%M_%K() -> i32 { let a: i8 = 300; let b: u8 = -1; return \"s\"; }",
	"fn Bad%M_%K() { let v := 1 @ 2 $ 3; }",
	"fn Bad%M_%K( { }",
	"fn Bad%M_%K() -> i64 { let q := undefined_fn_%K(1, 2) + other_%K(); return q; }",
	"let t%M_%K: i32 = \"str\"; let u%M_%K: bool = 5;",
	"fn Bad%M_%K() -> i64 { return 1 }",
	"fn Dup%M() {}",
}

func c14Subst(s string, m, k int) string {
	return strings.ReplaceAll(strings.ReplaceAll(s, "%M", fmt.Sprint(m)), "%K", fmt.Sprint(k))
}

func c14Gen(t *rapid.T, env *core.Env) any {
	c := &c14Case{Src: map[string]string{}}
	nm := rapid.IntRange(1, 5).Draw(t, "nmods")
	var mainB strings.Builder
	mainB.WriteString("import \"std/io\";\n")
	var calls []string
	withErrors := rapid.IntRange(0, 3).Draw(t, "witherrors") <= 1
	// a module is imported by main directly or only by an earlier module (then it is discovered
	// through that module's parse, at a different depth of the import tree)
	direct := map[int]bool{}
	extraImports := map[int][]int{}
	for m := 1; m <= nm; m++ {
		direct[m] = m == 1 || rapid.IntRange(0, 2).Draw(t, "direct") > 0
		if !direct[m] {
			parent := rapid.IntRange(1, m-1).Draw(t, "parent")
			extraImports[parent] = append(extraImports[parent], m)
		}
	}
	forceParse := map[int]bool{}
	if withErrors && rapid.Bool().Draw(t, "force_parse_errors") {
		for m := nm; m >= 2; m-- {
			if !direct[m] {
				// the deepest indirect module and one direct module that is not on its import path
				forceParse[m] = true
				for d := 1; d <= nm; d++ {
					if direct[d] && d != m {
						onPath := false
						for _, child := range extraImports[d] {
							onPath = onPath || child == m
						}
						if !onPath {
							forceParse[d] = true
							break
						}
					}
				}
				break
			}
		}
	}
	// a module that does not exist, imported by two modules: which of them asks for it first
	// depends on the schedule, the diagnostics must not
	missing := map[int]bool{}
	if withErrors && nm >= 2 && rapid.IntRange(0, 3).Draw(t, "missing_module") == 0 {
		a := rapid.IntRange(1, nm).Draw(t, "missing_a")
		b := rapid.IntRange(1, nm-1).Draw(t, "missing_b")
		if b >= a {
			b++
		}
		missing[a], missing[b] = true, true
		c.NErr += 2
	}
	for m := 1; m <= nm; m++ {
		if direct[m] {
			mainB.WriteString(fmt.Sprintf("import \"proj/m%d\";\n", m))
		}
		var b strings.Builder
		if missing[m] {
			b.WriteString("import \"proj/gone\";\n")
		}
		for _, child := range extraImports[m] {
			b.WriteString(fmt.Sprintf("import \"proj/m%d\";\n", child))
		}
		// chain imports between modules to make the parse graph non-trivial
		if m < nm && rapid.Bool().Draw(t, "chain") {
			dup := false
			for _, child := range extraImports[m] {
				dup = dup || child == m+1
			}
			if !dup {
				b.WriteString(fmt.Sprintf("import \"proj/m%d\";\n", m+1))
			}
		}
		// occasionally close an import cycle (the circular-import diagnostics must not depend on the schedule either)
		if m > 1 && rapid.IntRange(0, 11).Draw(t, "cycle") == 0 && env.Use("c14.cycle_diagnostics") {
			b.WriteString(fmt.Sprintf("import \"proj/m%d\";\n", rapid.IntRange(1, m-1).Draw(t, "back")))
			c.NErr++
		}
		ni := rapid.IntRange(1, 6).Draw(t, "nitems")
		for k := 0; k < ni; k++ {
			it := rapid.IntRange(0, len(c14Items)-1).Draw(t, "item")
			b.WriteString(c14Subst(c14Items[it], m, k) + "\n")
			if direct[m] {
				calls = append(calls, fmt.Sprintf("m%d::Get%d_%d()", m, m, k))
			}
		}
		if withErrors && forceParse[m] {
			// a syntax error both in a module that main imports and in one that is only discovered through
			// another (clean) module: which modules get loaded at all must not depend on who fails first
			e := []int{2, 3, 6}[rapid.IntRange(0, 2).Draw(t, "parse_err")]
			b.WriteString(c14Subst(c14Errors[e], m, 90) + "\n")
			c.NErr++
		} else if withErrors {
			ne := rapid.IntRange(0, 6).Draw(t, "nerr")
			for k := 0; k < ne; k++ {
				e := rapid.IntRange(0, len(c14Errors)-1).Draw(t, "err")
				b.WriteString(c14Subst(c14Errors[e], m, 100+k) + "\n")
				c.NErr++
			}
		}
		c.Src[fmt.Sprintf("m%d.fer", m)] = b.String()
	}
	mainB.WriteString("fn main() {\n    let h := fn(z: i64) -> i64 { return z - 1; };\n")
	for _, call := range calls {
		mainB.WriteString("    io::Println(h(" + call + "));\n")
	}
	mainB.WriteString("    io::Println(\"done\");\n}\n")
	c.Src["main.fer"] = mainB.String()
	c.Target = rapid.SampledFrom([]string{"check", "wasm", "native", "native"}).Draw(t, "target")
	if withErrors {
		c.Target = rapid.SampledFrom([]string{"check", "check", "wasm", "native"}).Draw(t, "target_err")
	}
	// K runs: the first is the reference (single-threaded, no delays)
	k := 4
	if env.Thorough() {
		k = 8
	}
	c.Scheds = append([]c15Sched{{Procs: 1}}, c14GenScheds(t, nm, k-1)...)
	return c
}

func c14GenScheds(t *rapid.T, nm, k int) []c15Sched {
	var out []c15Sched
	for s := 0; s < k; s++ {
		sc := c15Sched{Procs: rapid.SampledFrom([]int{1, 2, 4, 16, 16}).Draw(t, "procs")}
		var items []string
		// delay a random subset of modules at "enter" so that siblings finish lexing/parsing in a different order
		for m := 0; m <= nm; m++ {
			if rapid.IntRange(0, 2).Draw(t, "delay") == 0 {
				name := fmt.Sprintf("proj/m%d", m)
				if m == 0 {
					name = "proj/main"
				}
				kind := rapid.SampledFrom([]string{"enter", "enter", "deps", "spawn"}).Draw(t, "kind")
				items = append(items, fmt.Sprintf("%s@%s=%d", name, kind, rapid.SampledFrom([]int{5, 20, 60}).Draw(t, "ms")))
			}
		}
		sc.Spec = strings.Join(items, ",")
		out = append(out, sc)
	}
	return out
}

type c14Obs struct {
	exit  int
	out   string
	files map[string]string // name -> sha256
}

func c14Observe(tc sut.Toolchain, proj string, c *c14Case, sc c15Sched) (*c14Obs, *sut.CompileResult) {
	os.RemoveAll(filepath.Join(proj, "gen"))
	os.Remove(filepath.Join(proj, "out.bin"))
	os.Remove(filepath.Join(proj, "out.wasm"))
	o := sut.CompileOpts{GoMaxProcs: sc.Procs, Sched: sc.Spec, ForceCLI: true, Timeout: 40 * time.Second}
	switch c.Target {
	case "check":
		o.TypeOnly = true
	case "wasm":
		o.Target = "wasm"
		o.Out = filepath.Join(proj, "out.wasm")
	default:
		o.Out = filepath.Join(proj, "out.bin")
		o.KeepGen = true
		// the assembler and linker are not part of the property: skip the work (keeps one spawn per tool)
		o.Env = []string{"FERRET_AS=/bin/true", "FERRET_LD=/bin/true"}
	}
	r := tc.CompileCLI(proj, o)
	obs := &c14Obs{exit: r.Exit, files: map[string]string{}}
	obs.out = strings.ReplaceAll(r.Out, proj, "<P>")
	var paths []string
	if c.Target == "wasm" {
		paths = []string{filepath.Join(proj, "out.wasm")}
	} else if c.Target == "native" {
		paths, _ = filepath.Glob(filepath.Join(proj, "gen", "*.ssa"))
	}
	for _, p := range paths {
		if b, err := os.ReadFile(p); err == nil {
			obs.files[filepath.Base(p)] = fmt.Sprintf("%x", sha256.Sum256(b))
			if c.Target == "native" {
				os.WriteFile(p+".keep", b, 0o644)
			}
		}
	}
	return obs, r
}

func c14Check(env *core.Env, ci any) (res core.Result) {
	c := ci.(*c14Case)
	tc := tcOf(env)
	dir := env.NextDir()
	sut.WriteProject(dir, c.Files())
	proj := filepath.Join(dir, "proj")
	res.Labels = append(res.Labels, "target:"+c.Target)
	var ref *c14Obs
	var refSched c15Sched
	refFiles := map[string][]byte{}
	for i, sc := range c.Scheds {
		obs, r := c14Observe(tc, proj, c, sc)
		if r.TimedOut {
			res.Discard = "compile timed out (C13/C15's matter)"
			return
		}
		if r.Crash != "" {
			res.Discard = "compiler crash (C13's matter): " + r.Crash
			return
		}
		if i == 0 {
			ref, refSched = obs, sc
			if c.Target == "native" {
				keep, _ := filepath.Glob(filepath.Join(proj, "gen", "*.ssa.keep"))
				for _, k := range keep {
					b, _ := os.ReadFile(k)
					refFiles[strings.TrimSuffix(filepath.Base(k), ".keep")] = b
				}
			}
			nd := len(r.Diags)
			if len(c.Src) >= 3 || nd >= 2 {
				res.NonTrivial = true
			}
			if r.Exit == 0 {
				res.Labels = append(res.Labels, "accepted")
			} else {
				res.Labels = append(res.Labels, "rejected")
				if len(r.Errors()) > 12 {
					res.Labels = append(res.Labels, "rejected_with_>12_errors")
				}
				if strings.Contains(r.Out, "circular import") {
					res.Labels = append(res.Labels, "circular_import_reported")
				}
				if strings.Contains(r.Out, "proj/gone") {
					res.Labels = append(res.Labels, "missing_module_imported_twice")
				}
			}
			continue
		}
		where := fmt.Sprintf("run 1 {GOMAXPROCS=%d %q} vs run %d {GOMAXPROCS=%d %q}, target %s", refSched.Procs, refSched.Spec, i+1, sc.Procs, sc.Spec, c.Target)
		if obs.exit != ref.exit {
			res.Violation = fmt.Sprintf("exit status differs (%d vs %d): %s", ref.exit, obs.exit, where)
			res.VKey = "exit_differs"
			return
		}
		if obs.out != ref.out {
			res.Violation = "diagnostics / compiler output differ: " + where + "\n" + c14Diff(ref.out, obs.out)
			res.VKey = "diagnostics_differ"
			// classify the usual suspects for known-finding keys
			if sameMultiset(ref.out, obs.out) {
				res.VKey = "diagnostics_order_differs"
			} else if strings.Contains(ref.out, "circular import detected") && strings.Contains(obs.out, "circular import detected") {
				res.VKey = "diagnostics_differ:circular_import"
			}
			return
		}
		var names []string
		for n := range ref.files {
			names = append(names, n)
		}
		for n := range obs.files {
			if _, ok := ref.files[n]; !ok {
				names = append(names, n)
			}
		}
		sort.Strings(names)
		for _, n := range names {
			if ref.files[n] != obs.files[n] {
				detail := ""
				if b, err := os.ReadFile(filepath.Join(proj, "gen", n)); err == nil && refFiles[n] != nil {
					detail = "\n" + c14Diff(string(refFiles[n]), string(b))
				}
				res.Violation = fmt.Sprintf("generated code differs in %s: %s%s", n, where, detail)
				res.VKey = "generated_code_differs:" + c.Target
				if strings.Contains(detail, "__func_lit__") || strings.Contains(detail, "__struct_lit__") || strings.Contains(detail, "__enum_lit__") {
					res.VKey = "generated_code_differs:literal_ids"
				}
				return
			}
		}
	}
	return
}

func sameMultiset(a, b string) bool {
	la, lb := strings.Split(a, "\n"), strings.Split(b, "\n")
	sort.Strings(la)
	sort.Strings(lb)
	return strings.Join(la, "\n") == strings.Join(lb, "\n")
}

// c14Diff shows the first differing lines of two texts.
func c14Diff(a, b string) string {
	la, lb := strings.Split(a, "\n"), strings.Split(b, "\n")
	var out []string
	for i := 0; i < len(la) || i < len(lb); i++ {
		var x, y string
		if i < len(la) {
			x = la[i]
		}
		if i < len(lb) {
			y = lb[i]
		}
		if x != y {
			out = append(out, fmt.Sprintf("line %d:\n  - %s\n  + %s", i+1, clip(x), clip(y)))
			if len(out) >= 4 {
				break
			}
		}
	}
	return strings.Join(out, "\n")
}

func init() {
	core.Register(&core.Prop{
		ID:        "C14",
		Rule:      "rapid-generated projects of 2-6 modules (entry + 1-5 modules, optionally chained) assembled from declaration templates that exercise literal IDs and data emission (struct/enum types with match, function literals in several modules, string literals, results with catch, arrays, loops, constants, interfaces with two implementations each - four vtables in a module -, `is` checks on interface {} - several type-ID globals -), optionally an import cycle or a module that does not exist imported by two modules, one third of them with 0-6 injected errors per module (several diagnostics on one line, lexer/parser/type errors in sibling modules); each compiled K=4 (thorough 8) times by the real CLI as fresh processes: reference run GOMAXPROCS=1, the others GOMAXPROCS in {1,2,4,16} with hook delays (5-60 ms at enter/deps/spawn) on random module subsets; target in {type-check, wasm, native -keep-gen}. Oracle: equal exit status, byte-equal compiler output (project path normalised), byte-equal gen/*.ssa per module or out.wasm. non-trivial = >=3 files or >=2 diagnostics; distinct = hash of (files, target, schedules)",
		Gen:       c14Gen,
		New:       func() any { return &c14Case{} },
		Check:     c14Check,
		NoConfirm: true,
		Assumptions: []string{
			"Go map iteration order cannot be steered, only resampled: a dependence on it over n>=3 entries is missed by K runs with probability <= (1/n!)^(K-1)",
			"schedules are steered at module granularity (verif hook) and by GOMAXPROCS",
			"for the native target the assembler and linker are replaced by /bin/true: only the generated QBE IL is compared",
		},
	})
}
