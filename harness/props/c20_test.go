package props

// C20 — TOML configuration survives a write/parse round trip.
// Oracle: round trip (ParseTOMLFile(WriteTOMLFile(d)) == d, dynamic types and
// float bits included), metamorphic (comments / blank lines / surrounding
// blanks do not change the parse), totality (arbitrary bytes never panic).

import (
	"fmt"
	"math"
	"os"
	"path/filepath"
	"sort"
	"strings"
	"unicode/utf8"

	"compiler/toml"
	"compiler/verifharness/core"

	"pgregory.net/rapid"
)

type c20Val struct {
	Key  string `json:"k"`
	Kind string `json:"t"` // s b i f
	S    string `json:"s,omitempty"`
	B    bool   `json:"b,omitempty"`
	I    int64  `json:"i,omitempty"`
	F    uint64 `json:"f,omitempty"` // float64 bits
	Cmt  string `json:"c,omitempty"` // inline comment passed to the writer ("" = none)
}
type c20Sec struct {
	Name string   `json:"name"`
	Vals []c20Val `json:"vals"`
}
type c20Case struct {
	Mode  string   `json:"mode"` // roundtrip | bytes
	Secs  []c20Sec `json:"secs,omitempty"`
	Noise []int    `json:"noise,omitempty"` // drives the metamorphic re-layout
	Raw   []byte   `json:"raw,omitempty"`
}

var c20Sections = []string{"default", "compiler", "build", "cache", "external", "neighbors", "dependencies"}

func c20GenString(t *rapid.T) string {
	kind := rapid.IntRange(0, 11).Draw(t, "skind")
	ok := func(r rune) bool {
		return r != '"' && r != '\\' && r != '\n' && r != '\r' && r != utf8.RuneError
	}
	var s string
	switch kind {
	case 0:
		s = ""
	case 1:
		s = rapid.SampledFrom([]string{"123", "0", "-7", "3.5", "1e9", "0x10", "+5", "1_000", "True", "FALSE", "nan", "inf", "truee", " true", "true ", "007", "-0", "1.0"}).Draw(t, "numlike")
	case 2:
		s = rapid.SampledFrom([]string{"a#b", "# not a comment", "x = y", "[build]", "a=b # c", "  lead", "trail  ", "\ttab\t", " ", "  ", "#", "=", "[", "]", "[]", "a b c", "it's", "`q`", "{}", "a,b"}).Draw(t, "tricky")
	case 3:
		// long values (a line longer than bufio's default token is generated only in thorough via VERIF_C20_HUGE)
		n := rapid.IntRange(100, 400).Draw(t, "len")
		s = strings.Repeat(rapid.StringMatching(`[a-z #=]{1,4}`).Draw(t, "unit"), n/2)
	default:
		rs := rapid.SliceOfN(rapid.OneOf(
			rapid.RuneFrom([]rune("abcXYZ019 _-./:#=[]'")),
			rapid.RuneFrom([]rune(" \t#=")),
			rapid.Rune(),
		), 0, 24).Draw(t, "runes")
		var b strings.Builder
		for _, r := range rs {
			if ok(r) && utf8.ValidRune(r) {
				b.WriteRune(r)
			}
		}
		s = b.String()
	}
	if s == "true" || s == "false" {
		s += "_"
	}
	return s
}

func c20GenFloat(t *rapid.T) float64 {
	switch rapid.IntRange(0, 7).Draw(t, "fkind") {
	case 0:
		return float64(rapid.IntRange(-1000, 1000).Draw(t, "integral"))
	case 1:
		return rapid.SampledFrom([]float64{0, math.Copysign(0, -1), 1, -1, 1e15, 1e16, 1e21, 1e22, 1e100, -1e300, math.MaxFloat64, -math.MaxFloat64,
			math.SmallestNonzeroFloat64, -math.SmallestNonzeroFloat64, 2.2250738585072014e-308, 9007199254740992, 9007199254740993, 0.1, 0.5, 1.5, 3.0, 1 << 62, -(1 << 63), 1 << 63}).Draw(t, "special")
	case 2:
		return math.Ldexp(float64(rapid.Int64Range(-1<<53, 1<<53).Draw(t, "mant")), rapid.IntRange(-1074, 970).Draw(t, "exp"))
	default:
		for {
			f := math.Float64frombits(rapid.Uint64().Draw(t, "bits"))
			if !math.IsNaN(f) && !math.IsInf(f, 0) {
				return f
			}
			return float64(rapid.Int32().Draw(t, "fallback")) / 7
		}
	}
}

func c20Gen(t *rapid.T, env *core.Env) any {
	if rapid.IntRange(0, 9).Draw(t, "mode") == 0 {
		var raw []byte
		if rapid.Bool().Draw(t, "structured") {
			toks := rapid.SliceOfN(rapid.SampledFrom([]string{"[", "]", "=", "\"", "#", "\n", "\r\n", " ", "a", "true", "1", "1.5", "[x]", "k = v", "\\", "\x00", "\xff", "[]", "=\n", "\"\n"}), 0, 40).Draw(t, "toks")
			raw = []byte(strings.Join(toks, ""))
		} else {
			raw = rapid.SliceOfN(rapid.Byte(), 0, 300).Draw(t, "raw")
		}
		return &c20Case{Mode: "bytes", Raw: raw}
	}
	c := &c20Case{Mode: "roundtrip"}
	// sections: subset of the known ones; default absent or non-empty
	for _, name := range c20Sections {
		if !rapid.Bool().Draw(t, "has_"+name) {
			continue
		}
		min := 0
		if name == "default" {
			min = 1
		}
		n := rapid.IntRange(min, 6).Draw(t, "nvals")
		sec := c20Sec{Name: name}
		seen := map[string]bool{}
		for i := 0; i < n; i++ {
			k := rapid.StringMatching(`[A-Za-z0-9_-]{1,12}`).Draw(t, "key")
			if seen[k] {
				continue
			}
			seen[k] = true
			v := c20Val{Key: k}
			switch rapid.IntRange(0, 5).Draw(t, "vkind") {
			case 0, 1:
				v.Kind = "s"
				v.S = c20GenString(t)
			case 2:
				v.Kind = "b"
				v.B = rapid.Bool().Draw(t, "b")
			case 3:
				v.Kind = "i"
				v.I = rapid.OneOf(rapid.Int64Range(-5, 5), rapid.SampledFrom([]int64{math.MaxInt64, math.MinInt64, math.MaxInt32, math.MinInt32, 1 << 53, -1 << 53}), rapid.Int64()).Draw(t, "i")
			default:
				v.Kind = "f"
				v.F = math.Float64bits(c20GenFloat(t))
			}
			if rapid.IntRange(0, 3).Draw(t, "hascmt") == 0 {
				v.Cmt = rapid.SampledFrom([]string{"c", "a \"quoted\" remark", "x = 1", "# again", "[sec]", "it's", "ünï", ""}).Draw(t, "cmt")
				if v.Cmt == "" {
					v.Cmt = " "
				}
			}
			sec.Vals = append(sec.Vals, v)
		}
		if name == "default" && len(sec.Vals) == 0 {
			continue
		}
		c.Secs = append(c.Secs, sec)
	}
	c.Noise = rapid.SliceOfN(rapid.IntRange(0, 255), 0, 48).Draw(t, "noise")
	return c
}

func (c *c20Case) data() (toml.TOMLData, map[string]map[string]string) {
	d := toml.TOMLData{}
	cm := map[string]map[string]string{}
	for _, s := range c.Secs {
		tb := toml.TOMLTable{}
		for _, v := range s.Vals {
			switch v.Kind {
			case "s":
				tb[v.Key] = v.S
			case "b":
				tb[v.Key] = v.B
			case "i":
				tb[v.Key] = int(v.I)
			case "f":
				tb[v.Key] = math.Float64frombits(v.F)
			}
			if v.Cmt != "" {
				if cm[s.Name] == nil {
					cm[s.Name] = map[string]string{}
				}
				cm[s.Name][v.Key] = v.Cmt
			}
		}
		d[s.Name] = tb
	}
	return d, cm
}

func c20Equal(want, got toml.TOMLData) string {
	var names []string
	for k := range want {
		names = append(names, k)
	}
	sort.Strings(names)
	for k := range got {
		if _, ok := want[k]; !ok {
			return fmt.Sprintf("unexpected section %q", k)
		}
	}
	for _, n := range names {
		w, g := want[n], got[n]
		if g == nil {
			return fmt.Sprintf("section %q lost", n)
		}
		if len(w) != len(g) {
			return fmt.Sprintf("section %q: %d keys written, %d read", n, len(w), len(g))
		}
		var keys []string
		for k := range w {
			keys = append(keys, k)
		}
		sort.Strings(keys)
		for _, k := range keys {
			wv := w[k]
			gv, ok := g[k]
			if !ok {
				return fmt.Sprintf("[%s] %s lost", n, k)
			}
			same := false
			switch x := wv.(type) {
			case float64:
				y, ok := gv.(float64)
				same = ok && math.Float64bits(x) == math.Float64bits(y)
			default:
				same = wv == gv
			}
			if !same {
				return fmt.Sprintf("[%s] %s: wrote %T(%#v) read %T(%#v)", n, k, wv, wv, gv, gv)
			}
		}
	}
	return ""
}

// relayout inserts comment lines, blank lines and surrounding blanks, driven by noise.
func c20Relayout(text string, noise []int) string {
	if len(noise) == 0 {
		return text
	}
	ni := 0
	next := func() int { v := noise[ni%len(noise)]; ni++; return v }
	blanks := []string{"", " ", "  ", "\t", " \t "}
	var out strings.Builder
	lines := strings.Split(strings.TrimSuffix(text, "\n"), "\n")
	eol := "\n"
	if next()%4 == 0 {
		eol = "\r\n"
	}
	for _, ln := range lines {
		for k := next() % 3; k > 0; k-- {
			switch next() % 4 {
			case 0:
				out.WriteString(eol)
			case 1:
				out.WriteString(blanks[next()%len(blanks)] + eol)
			case 2:
				out.WriteString(blanks[next()%len(blanks)] + "# a comment = with [stuff] \"and quotes" + eol)
			case 3:
				out.WriteString("#" + eol)
			}
		}
		if ln != "" && !strings.HasPrefix(ln, "[") {
			// "key = value": vary the blanks around the first '=' (keys never contain '=')
			if i := strings.Index(ln, " = "); i >= 0 {
				seps := []string{" = ", "=", "  =  ", "\t=\t", "= ", " ="}
				ln = ln[:i] + seps[next()%len(seps)] + ln[i+3:]
			}
		}
		tail := blanks[next()%len(blanks)]
		if ln != "" && !strings.HasPrefix(ln, "[") && next()%3 == 0 {
			// an inline comment behind the value (the parser strips '#' outside quotes)
			inline := []string{"# note", "#", " # a = b [x]", "\t# say \"hi\"", " # ends with a \"quote\"", " ## double", " # \"", "# 'single' \"q\" # more"}
			tail = " " + inline[next()%len(inline)] + tail
		}
		out.WriteString(blanks[next()%len(blanks)] + ln + tail + eol)
	}
	return out.String()
}

func c20Check(env *core.Env, ci any) (res core.Result) {
	c := ci.(*c20Case)
	dir := env.NextDir()
	path := filepath.Join(dir, "fer.ret")
	defer func() {
		if r := recover(); r != nil {
			res.Violation = fmt.Sprintf("panic in toml package: %v", r)
			res.VKey = "panic"
		}
	}()
	if c.Mode == "bytes" {
		os.WriteFile(path, c.Raw, 0o644)
		_, err := toml.ParseTOMLFile(path)
		res.Labels = []string{"mode:bytes"}
		if err != nil {
			res.Labels = append(res.Labels, "bytes:error")
		}
		res.NonTrivial = len(c.Raw) > 3
		return
	}
	d, cm := c.data()
	res.Labels = []string{"mode:roundtrip"}
	nstrTricky, nfloat, nintegralFloat := 0, 0, 0
	for _, s := range c.Secs {
		for _, v := range s.Vals {
			switch v.Kind {
			case "s":
				if strings.ContainsAny(v.S, "# \t=[") {
					nstrTricky++
				}
			case "f":
				nfloat++
				f := math.Float64frombits(v.F)
				if f == math.Trunc(f) {
					nintegralFloat++
				}
			}
		}
	}
	if nstrTricky > 0 {
		res.Labels = append(res.Labels, "string_with_hash_or_blank")
	}
	if nfloat > 0 {
		res.Labels = append(res.Labels, "has_float")
	}
	if nintegralFloat > 0 {
		res.Labels = append(res.Labels, "has_integral_float")
	}
	if len(cm) > 0 {
		res.Labels = append(res.Labels, "inline_comment")
	}
	res.NonTrivial = len(c.Secs) >= 2 && (nstrTricky > 0 || nfloat > 0)
	if err := toml.WriteTOMLFile(path, d, cm); err != nil {
		res.Infra = "write: " + err.Error()
		return
	}
	got, err := toml.ParseTOMLFile(path)
	if err != nil {
		res.Violation = "written file does not parse: " + err.Error()
		res.VKey = "parse_error"
		return
	}
	if msg := c20Equal(d, got); msg != "" {
		b, _ := os.ReadFile(path)
		res.Violation = "round trip: " + msg + "\nfile:\n" + string(b)
		res.VKey = "roundtrip"
		return
	}
	// metamorphic: comments, blank lines, surrounding blanks
	b, _ := os.ReadFile(path)
	alt := c20Relayout(string(b), c.Noise)
	if alt != string(b) {
		res.Labels = append(res.Labels, "relayout")
		p2 := filepath.Join(dir, "alt.ret")
		os.WriteFile(p2, []byte(alt), 0o644)
		got2, err := toml.ParseTOMLFile(p2)
		if err != nil {
			res.Violation = "re-laid-out file does not parse: " + err.Error() + "\nfile:\n" + alt
			res.VKey = "relayout_parse_error"
			return
		}
		if msg := c20Equal(d, got2); msg != "" {
			res.Violation = "comments/blanks changed the parse: " + msg + "\nfile:\n" + alt
			res.VKey = "relayout"
			return
		}
	}
	return
}

func init() {
	core.Register(&core.Prop{
		ID:    "C20",
		Rule:  "rapid-generated TOMLData over the 7 writer sections (keys [A-Za-z0-9_-]{1,12}; strings valid UTF-8 without quote/backslash/CR/LF and not 'true'/'false', bools, full-range ints, finite float64 incl. integral/subnormal/±0/huge) written by WriteTOMLFile (with generated inline comments), parsed back and compared incl. dynamic type and float bits; then re-laid-out with comment lines, inline comments behind values (also containing or ending in quotes), blank lines, CRLF, blanks around lines and '='; 10% of cases are arbitrary/structured byte files checked for no panic. non-trivial = >=2 sections and (a string containing '#', blank, '=' or '[' or a float); distinct = hash of the case",
		Gen:   c20Gen,
		New:   func() any { return &c20Case{} },
		Check: c20Check,
		Assumptions: []string{
			"an empty 'default' table has no written form and is not generated",
			"values longer than bufio.Scanner's 64 KiB token limit are outside the generated domain",
			"keys are restricted to [A-Za-z0-9_-]",
		},
	})
}
