package props

// C16 — 128/256-bit integer arithmetic is exact modulo 2^N.
// Differential against math/big; the runtime's bigint.c runs as an ASan+UBSan
// co-process in two builds (64-bit limbs as on native, 32-bit limbs as on
// 32-bit targets).

import (
	"fmt"
	"math/big"
	"path/filepath"
	"strings"

	"compiler/verifharness/core"
	"compiler/verifharness/sut"

	"pgregory.net/rapid"
)

type c16Op struct {
	Op  string `json:"op"`
	T   string `json:"t"`
	Var string `json:"var"` // v (by value) | p (the *_ptr entry points the compiler calls)
	A   string `json:"a"`
	B   string `json:"b,omitempty"`
}
type c16Case struct {
	Limb int     `json:"limb"` // 64 | 32
	Ops  []c16Op `json:"ops"`
}

var c16Types = []string{"i128", "u128", "i256", "u256"}

func c16Bits(t string) int {
	if strings.HasSuffix(t, "128") {
		return 128
	}
	return 256
}
func c16Signed(t string) bool { return t[0] == 'i' }

var (
	big1 = big.NewInt(1)
	pow2 = func(n int) *big.Int { return new(big.Int).Lsh(big1, uint(n)) }
)

func c16Hex(v *big.Int, bits int) string {
	m := new(big.Int).Mod(v, pow2(bits))
	s := m.Text(16)
	return strings.Repeat("0", bits/4-len(s)) + s
}
func c16Unsigned(hex string) *big.Int {
	v, _ := new(big.Int).SetString(hex, 16)
	return v
}
func c16Value(hex string, t string) *big.Int {
	v := c16Unsigned(hex)
	if c16Signed(t) && v.Bit(c16Bits(t)-1) == 1 {
		v.Sub(v, pow2(c16Bits(t)))
	}
	return v
}

// operand built limb by limb from boundary patterns
func c16GenOperand(t *rapid.T, bits int, label string) *big.Int {
	switch rapid.IntRange(0, 9).Draw(t, label+"_kind") {
	case 0: // sign / range boundaries
		k := rapid.IntRange(0, 8).Draw(t, label+"_b")
		min := new(big.Int).Neg(pow2(bits - 1))
		max := new(big.Int).Sub(pow2(bits-1), big1)
		umax := new(big.Int).Sub(pow2(bits), big1)
		return []*big.Int{min, new(big.Int).Add(min, big1), max, new(big.Int).Sub(max, big1), big.NewInt(-1), big.NewInt(0), big.NewInt(1), umax, big.NewInt(-2)}[k]
	case 1: // small values
		return big.NewInt(rapid.Int64Range(-300, 300).Draw(t, label+"_small"))
	case 2: // 2^k + d
		k := rapid.IntRange(0, bits-1).Draw(t, label+"_k")
		d := rapid.Int64Range(-2, 2).Draw(t, label+"_d")
		v := new(big.Int).Add(pow2(k), big.NewInt(d))
		if rapid.Bool().Draw(t, label+"_neg") {
			v.Neg(v)
		}
		return v
	default:
		v := new(big.Int)
		nl := bits / 32
		limbs32 := []uint32{0, 1, 0x80000000, 0xffffffff, 0x7fffffff, 0xfffffffe, 2}
		// choose per 64-bit limb a pattern, then optionally perturb 32-bit halves
		for i := nl - 1; i >= 0; i-- {
			var w uint32
			switch rapid.IntRange(0, 5).Draw(t, label+"_lk") {
			case 0:
				w = 0
			case 1:
				w = 0xffffffff
			case 2:
				w = rapid.SampledFrom(limbs32).Draw(t, label+"_lp")
			default:
				w = rapid.Uint32().Draw(t, label+"_lr")
			}
			v.Lsh(v, 32)
			v.Or(v, new(big.Int).SetUint64(uint64(w)))
		}
		return v
	}
}

func c16Gen(t *rapid.T, env *core.Env) any {
	c := &c16Case{Limb: rapid.SampledFrom([]int{64, 64, 32}).Draw(t, "limb")}
	n := rapid.IntRange(1, 48).Draw(t, "n")
	ops := []string{"add", "sub", "mul", "div", "mod", "eq", "lt", "gt", "and", "or", "xor", "not", "shl", "shr", "pow", "from64", "to64", "tostr", "fromstr",
		"sub", "mul", "div", "mod", "add"}
	for i := 0; i < n; i++ {
		o := c16Op{Op: rapid.SampledFrom(ops).Draw(t, "op"), T: rapid.SampledFrom(c16Types).Draw(t, "type"), Var: rapid.SampledFrom([]string{"v", "p"}).Draw(t, "var")}
		bits := c16Bits(o.T)
		a := c16GenOperand(t, bits, "a")
		var b *big.Int
		switch rapid.IntRange(0, 7).Draw(t, "brel") { // related second operands
		case 0:
			b = new(big.Int).Set(a)
		case 1:
			b = new(big.Int).Add(a, big.NewInt(rapid.Int64Range(-2, 2).Draw(t, "bd")))
		case 2:
			b = new(big.Int).Neg(a)
		default:
			b = c16GenOperand(t, bits, "b")
		}
		o.A = c16Hex(a, bits)
		switch o.Op {
		case "shl", "shr":
			o.B = fmt.Sprint(rapid.OneOf(rapid.IntRange(0, bits-1), rapid.SampledFrom([]int{0, 1, 31, 32, 33, 63, 64, 65, 127, bits - 1, bits - 64, bits - 65})).Draw(t, "count"))
		case "pow":
			if rapid.IntRange(0, 4).Draw(t, "bigexp") == 0 {
				b = new(big.Int).Abs(b)
				b.Mod(b, pow2(bits-1)) // non-negative also for the signed types
				o.B = c16Hex(b, bits)
			} else {
				o.B = c16Hex(big.NewInt(int64(rapid.IntRange(0, 300).Draw(t, "exp"))), bits)
			}
			if rapid.Bool().Draw(t, "smallbase") {
				o.A = c16Hex(big.NewInt(rapid.Int64Range(-12, 12).Draw(t, "base")), bits)
			}
		case "not", "to64", "tostr":
			o.B = ""
		case "from64":
			o.A = fmt.Sprintf("%016x", rapid.OneOf(rapid.SampledFrom([]uint64{0, 1, 0x7fffffffffffffff, 0x8000000000000000, 0xffffffffffffffff, 0xffffffff, 0x100000000, 0x80000000, 0xffffffff80000000}), rapid.Uint64()).Draw(t, "v64"))
			o.B = ""
		case "fromstr":
			// decimal / prefixed text of a value; occasionally beyond the range (must wrap mod 2^N)
			v := c16Value(o.A, o.T)
			if rapid.IntRange(0, 7).Draw(t, "oor") == 0 {
				v = new(big.Int).Add(new(big.Int).Abs(v), new(big.Int).Mul(pow2(bits), big.NewInt(int64(rapid.IntRange(1, 3).Draw(t, "wraps")))))
			}
			neg := v.Sign() < 0
			mag := new(big.Int).Abs(v)
			var s string
			switch rapid.IntRange(0, 5).Draw(t, "base") {
			case 0:
				s = "0x" + mag.Text(16)
			case 1:
				s = "0b" + mag.Text(2)
			case 2:
				s = "0o" + mag.Text(8)
			default:
				s = mag.Text(10)
			}
			if rapid.IntRange(0, 3).Draw(t, "us") == 0 && len(s) > 4 {
				s = s[:len(s)-3] + "_" + s[len(s)-3:]
			}
			if neg {
				s = "-" + s
			} else if rapid.IntRange(0, 5).Draw(t, "plus") == 0 {
				s = "+" + s
			}
			o.A = s
			o.B = ""
		default:
			o.B = c16Hex(b, bits)
		}
		c.Ops = append(c.Ops, o)
	}
	return c
}

// c16Oracle returns the expected reply ("" = outside the specified domain, skip) and whether the evaluation is non-trivial.
func c16Oracle(o c16Op) (string, bool) {
	bits := c16Bits(o.T)
	signed := c16Signed(o.T)
	mod := pow2(bits)
	l64 := pow2(64)
	multi := func(v *big.Int) bool { return new(big.Int).Abs(v).Cmp(l64) >= 0 }
	switch o.Op {
	case "add", "sub", "mul", "and", "or", "xor":
		ua, ub := c16Unsigned(o.A), c16Unsigned(o.B)
		r := new(big.Int)
		switch o.Op {
		case "add":
			r.Add(ua, ub)
		case "sub":
			r.Sub(ua, ub)
		case "mul":
			r.Mul(ua, ub)
		case "and":
			r.And(ua, ub)
		case "or":
			r.Or(ua, ub)
		case "xor":
			r.Xor(ua, ub)
		}
		// non-trivial: a carry/borrow/partial product crosses a 64-bit limb boundary, i.e. the result
		// differs from the limb-wise independent computation; bitwise: both operands use >= 2 limbs
		nt := false
		switch o.Op {
		case "add", "sub", "mul":
			indep := new(big.Int)
			mask := new(big.Int).Sub(l64, big1)
			for i := bits/64 - 1; i >= 0; i-- {
				la := new(big.Int).And(new(big.Int).Rsh(ua, uint(64*i)), mask)
				lb := new(big.Int).And(new(big.Int).Rsh(ub, uint(64*i)), mask)
				var lr *big.Int
				switch o.Op {
				case "add":
					lr = new(big.Int).Add(la, lb)
				case "sub":
					lr = new(big.Int).Sub(la, lb)
				default:
					lr = new(big.Int).Mul(la, lb)
				}
				lr.Mod(lr, l64)
				indep.Lsh(indep, 64)
				indep.Or(indep, lr)
			}
			nt = indep.Cmp(new(big.Int).Mod(r, mod)) != 0
		default:
			nt = multi(ua) && multi(ub)
		}
		return c16Hex(r, bits), nt
	case "div", "mod":
		a, b := c16Value(o.A, o.T), c16Value(o.B, o.T)
		if b.Sign() == 0 {
			return "", false // division by zero: unspecified
		}
		q, m := new(big.Int).QuoRem(a, b, new(big.Int)) // truncating
		nt := multi(a) || multi(b)
		if o.Op == "div" {
			return c16Hex(q, bits), nt
		}
		return c16Hex(m, bits), nt
	case "eq", "lt", "gt":
		a, b := c16Value(o.A, o.T), c16Value(o.B, o.T)
		cmp := a.Cmp(b)
		r := map[string]bool{"eq": cmp == 0, "lt": cmp < 0, "gt": cmp > 0}[o.Op]
		// non-trivial: the top 64-bit limbs agree (lower limbs decide) or the signs differ
		top := func(h string) string { return h[:16] }
		nt := top(o.A) == top(o.B) || (signed && a.Sign()*b.Sign() < 0)
		if r {
			return "1", nt
		}
		return "0", nt
	case "not":
		ua := c16Unsigned(o.A)
		r := new(big.Int).Sub(new(big.Int).Sub(mod, big1), ua)
		return c16Hex(r, bits), multi(ua)
	case "shl", "shr":
		var n int
		fmt.Sscan(o.B, &n)
		if n < 0 || n >= bits {
			return "", false
		}
		var r *big.Int
		if o.Op == "shl" {
			r = new(big.Int).Lsh(c16Unsigned(o.A), uint(n))
		} else if signed {
			r = new(big.Int).Rsh(c16Value(o.A, o.T), uint(n)) // arithmetic
		} else {
			r = new(big.Int).Rsh(c16Unsigned(o.A), uint(n))
		}
		nt := n%64 != 0 && multi(c16Unsigned(o.A))
		return c16Hex(r, bits), nt
	case "pow":
		e := c16Value(o.B, o.T)
		if e.Sign() < 0 {
			return "", false // negative exponent: unspecified
		}
		base := c16Unsigned(o.A)
		r := new(big.Int).Exp(base, e, mod)
		exact := new(big.Int)
		nt := false
		if e.BitLen() <= 12 {
			exact.Exp(c16Value(o.A, o.T), e, nil)
			nt = new(big.Int).Abs(exact).Cmp(l64) >= 0 // result needs more than one limb (possibly wraps)
		} else {
			nt = true
		}
		return c16Hex(r, bits), nt
	case "from64":
		v, _ := new(big.Int).SetString(o.A, 16)
		if signed && v.Bit(63) == 1 {
			v.Sub(v, l64)
		}
		return c16Hex(v, bits), signed && v.Sign() < 0
	case "to64":
		v := c16Unsigned(o.A)
		lo := new(big.Int).Mod(v, l64)
		return fmt.Sprintf("%016x", lo.Uint64()), multi(v)
	case "tostr":
		v := c16Value(o.A, o.T)
		return v.Text(10), multi(v) || v.Sign() < 0
	case "fromstr":
		s := strings.ReplaceAll(o.A, "_", "")
		neg := strings.HasPrefix(s, "-")
		s = strings.TrimLeft(s, "+-")
		base := 10
		switch {
		case strings.HasPrefix(s, "0x"):
			base, s = 16, s[2:]
		case strings.HasPrefix(s, "0b"):
			base, s = 2, s[2:]
		case strings.HasPrefix(s, "0o"):
			base, s = 8, s[2:]
		}
		if neg && !signed {
			return "", false
		}
		v, ok := new(big.Int).SetString(s, base)
		if !ok {
			return "", false
		}
		if neg {
			v.Neg(v)
		}
		return c16Hex(v, bits), multi(v) || neg
	}
	return "", false
}

func c16Coproc(env *core.Env, limb int) (*sut.Coproc, string, error) {
	name := "bigint_drv"
	if limb == 32 {
		name = "bigint_drv32"
	}
	v, err := env.Resource(name, func() (any, error) {
		cp, err := sut.StartCoproc(filepath.Join(env.Toolchain, "cdrv", name),
			"ASAN_OPTIONS=detect_leaks=0:abort_on_error=0:exitcode=99", "UBSAN_OPTIONS=print_stacktrace=1:halt_on_error=1")
		if err != nil {
			return nil, err
		}
		if r, err := cp.Call("limbbits"); err != nil || r != fmt.Sprint(limb) {
			return nil, fmt.Errorf("driver %s reports limb bits %q (%v)", name, r, err)
		}
		closers = append(closers, cp.Close)
		return cp, nil
	})
	if err != nil {
		return nil, name, err
	}
	return v.(*sut.Coproc), name, nil
}

func c16Check(env *core.Env, ci any) (res core.Result) {
	c := ci.(*c16Case)
	cp, name, err := c16Coproc(env, c.Limb)
	if err != nil {
		res.Infra = "cannot start bigint driver: " + err.Error()
		return
	}
	var lines []string
	var expect []string
	var idx []int
	for i, o := range c.Ops {
		want, nt := c16Oracle(o)
		if want == "" {
			env.Stats.Label("skipped_unspecified:" + o.Op)
			continue
		}
		b := o.B
		if b == "" {
			b = "0"
		}
		lines = append(lines, fmt.Sprintf("%s %s %s %s %s", o.Op, o.T, o.Var, o.A, b))
		expect = append(expect, want)
		idx = append(idx, i)
		res.Sub = append(res.Sub, core.SubEval{Key: fmt.Sprintf("%d %s %s %s %s %s", c.Limb, o.Op, o.T, o.Var, o.A, o.B), NonTrivial: nt,
			Sample: fmt.Sprintf(`{"limb":%d,"op":"%s","type":"%s","variant":"%s","a":"%s","b":"%s","expected":"%s"}`, c.Limb, o.Op, o.T, o.Var, o.A, o.B, want)})
		env.Stats.Label("op:" + o.Op)
	}
	res.Labels = append(res.Labels, fmt.Sprintf("limb%d", c.Limb))
	if len(lines) == 0 {
		res.Discard = "batch had only unspecified operations"
		return
	}
	replies, err := cp.CallBatch(lines)
	if err != nil {
		env.DropResource(name)
		msg := err.Error()
		at := "?"
		if len(replies) < len(lines) {
			at = lines[len(replies)]
		}
		res.Violation = fmt.Sprintf("bigint runtime (limb %d) died while executing `%s`:\n%s", c.Limb, at, firstLines(msg, 25))
		res.VKey = sut.SanitizerSummary(msg)
		return
	}
	for j, r := range replies {
		if r != expect[j] {
			o := c.Ops[idx[j]]
			res.Violation = fmt.Sprintf("limb%d %s_%s(%s) a=%s b=%s\n  runtime : %s\n  math/big: %s", c.Limb, o.T, o.Op, o.Var, o.A, o.B, r, expect[j])
			res.VKey = o.Op
			if o.Op == "fromstr" && len(o.A) > c16Bits(o.T)/3 {
				res.VKey = "fromstr"
			}
			return
		}
	}
	return
}

func init() {
	core.Register(&core.Prop{
		ID:    "C16",
		Rule:  "rapid-generated batches of (op, type in {i128,u128,i256,u256}, by-value or *_ptr entry point, operands built limb by limb from {0, all-ones, 2^31, 2^32-1, ...}, sign/range boundaries, 2^k+d, small values, and second operands related to the first (equal, +-2, negated)) executed by runtime/core/bigint.c (ASan+UBSan co-process; 64-bit-limb and 32-bit-limb builds) and compared with math/big reduced mod 2^N (two's complement, truncating division, arithmetic right shift for signed, counts in [0,N), pow with non-negative exponent, decimal/0x/0o/0b text with underscores incl. out-of-range text that must wrap). Division by zero and negative exponents are unspecified and skipped. non-trivial = carry/borrow/partial product crosses a 64-bit limb boundary (add/sub/mul), a multi-limb operand (div/mod/bitwise/shift by non-multiple of 64/text), comparison decided below the top limb or by sign, result of pow beyond one limb; distinct = (limb build, op, type, variant, operands)",
		Gen:   c16Gen,
		New:   func() any { return &c16Case{} },
		Check: c16Check,
		Assumptions: []string{
			"math/big is the reference",
			"shift counts are in [0, N); division by zero, negative exponents and '-' text for unsigned types are outside the property",
			"the 32-bit-limb variant is obtained with -U__SIZEOF_INT128__ (the configuration bigint.h selects on targets without __int128)",
		},
	})
}
