package props

// C11 — implicit numeric conversions never lose information.
// Oracle: representability computed from first principles (integer ranges,
// float significand widths and exponent ranges), not from the compiler's table.
// The 17x17x6 (S, T, position) space with a plain parameter as source is
// enumerated exhaustively on every run; rapid adds source-expression forms and
// further positions.

import (
	"fmt"
	"sort"
	"strings"

	"compiler/verifharness/core"
	"compiler/verifharness/sut"

	"pgregory.net/rapid"
)

type numType struct {
	Name   string
	Float  bool
	Bits   int // integer width
	Signed bool
	Prec   int // float significand bits (incl. implicit bit)
	Emax   int // float: largest finite exponent (2^Emax <= max < 2^(Emax+1))
}

var numTypes = []numType{
	{Name: "i8", Bits: 8, Signed: true}, {Name: "i16", Bits: 16, Signed: true}, {Name: "i32", Bits: 32, Signed: true},
	{Name: "i64", Bits: 64, Signed: true}, {Name: "i128", Bits: 128, Signed: true}, {Name: "i256", Bits: 256, Signed: true},
	{Name: "u8", Bits: 8}, {Name: "u16", Bits: 16}, {Name: "u32", Bits: 32},
	{Name: "u64", Bits: 64}, {Name: "u128", Bits: 128}, {Name: "u256", Bits: 256},
	{Name: "f32", Float: true, Prec: 24, Emax: 127}, {Name: "f64", Float: true, Prec: 53, Emax: 1023},
	// binary128: 112 stored mantissa bits; f256 per runtime/core/bigint.h: 1 sign + 19 exponent + 236 mantissa
	{Name: "f128", Float: true, Prec: 113, Emax: 16383}, {Name: "f256", Float: true, Prec: 237, Emax: 262143},
	{Name: "byte", Bits: 8},
}

func numTypeByName(n string) numType {
	for _, t := range numTypes {
		if t.Name == n {
			return t
		}
	}
	panic("unknown type " + n)
}

// lossless reports whether every value of s is exactly representable in t.
func lossless(s, t numType) bool {
	switch {
	case !s.Float && !t.Float:
		if s.Signed {
			return t.Signed && t.Bits >= s.Bits
		}
		if t.Signed {
			return t.Bits > s.Bits
		}
		return t.Bits >= s.Bits
	case !s.Float && t.Float:
		mag := s.Bits // unsigned max = 2^N-1 needs N significant bits
		if s.Signed {
			mag = s.Bits - 1 // max 2^(N-1)-1 needs N-1 bits; min -2^(N-1) is a power of two
		}
		return mag <= t.Prec && s.Bits-1 <= t.Emax
	case s.Float && t.Float:
		return s.Prec <= t.Prec && s.Emax <= t.Emax
	default: // float -> int
		return false
	}
}

type c11Line struct {
	S   string `json:"s"`
	T   string `json:"t"`
	Pos string `json:"pos"`
	Src string `json:"src"`
}
type c11Case struct {
	Lines []c11Line `json:"lines"`
}

var c11Positions = []string{"let", "assign", "arg", "return", "field", "arrelem"}
var c11MorePositions = []string{"method_arg", "closure_arg", "closure_ret", "field_assign", "elem_assign", "dynarr_elem", "append", "result_ret", "nested_field", "ref_target_assign"}
var c11Sources = []string{"param", "paren", "local", "field", "elem", "call", "ref", "const", "neg", "sum", "method_ret", "closure_call", "deref_mut"}

// render produces the lines of one test; "$" is replaced by a unique suffix.
func (l c11Line) render(n int) []string {
	S, T := l.S, l.T
	id := fmt.Sprintf("%d", n)
	var pre []string // declarations (own lines)
	var setup string // statements inside the function before the conversion, defines expression e
	e := "x"
	switch l.Src {
	case "param":
	case "paren":
		e = "(x)"
	case "local":
		setup = "let q: " + S + " = x; "
		e = "q"
	case "field":
		pre = append(pre, "type SS"+id+" struct { .F: "+S+" };")
		setup = "let q: SS" + id + " = {.F = x}; "
		e = "q.F"
	case "elem":
		setup = "let q: [1]" + S + " = [x]; "
		e = "q[0]"
	case "call":
		pre = append(pre, "fn idf"+id+"(v: "+S+") -> "+S+" { return v; }")
		e = "idf" + id + "(x)"
	case "ref":
		setup = "let q: &" + S + " = &x; "
		e = "q"
	case "deref_mut":
		setup = "let xm: " + S + " = x; let q: &'" + S + " = &'xm; "
		e = "q"
	case "const":
		setup = "const q: " + S + " = x; "
		e = "q"
	case "neg":
		e = "-x"
	case "sum":
		e = "x + x"
	case "method_ret":
		pre = append(pre, "type MS"+id+" struct { .F: "+S+" };", "fn (m: &MS"+id+") get() -> "+S+" { return m.F; }")
		setup = "let q: MS" + id + " = {.F = x}; "
		e = "q.get()"
	case "closure_call":
		setup = "let q := fn() -> " + S + " { return x; }; "
		e = "q()"
	}
	var fn string
	switch l.Pos {
	case "let":
		fn = "fn t" + id + "(x: " + S + ", z: " + T + ") { " + setup + "let y: " + T + " = " + e + "; }"
	case "assign":
		fn = "fn t" + id + "(x: " + S + ", z: " + T + ") { " + setup + "let y: " + T + " = z; y = " + e + "; }"
	case "arg":
		pre = append(pre, "fn take"+id+"(v: "+T+") {}")
		fn = "fn t" + id + "(x: " + S + ", z: " + T + ") { " + setup + "take" + id + "(" + e + "); }"
	case "return":
		fn = "fn t" + id + "(x: " + S + ", z: " + T + ") -> " + T + " { " + setup + "return " + e + "; }"
	case "field":
		pre = append(pre, "type WT"+id+" struct { .F: "+T+" };")
		fn = "fn t" + id + "(x: " + S + ", z: " + T + ") { " + setup + "let w: WT" + id + " = {.F = " + e + "}; }"
	case "arrelem":
		fn = "fn t" + id + "(x: " + S + ", z: " + T + ") { " + setup + "let a: [2]" + T + " = [z, " + e + "]; }"
	case "method_arg":
		pre = append(pre, "type MT"+id+" struct { .F: "+T+" };", "fn (m: &MT"+id+") put(v: "+T+") {}")
		fn = "fn t" + id + "(x: " + S + ", z: " + T + ") { " + setup + "let w: MT" + id + " = {.F = z}; w.put(" + e + "); }"
	case "closure_arg":
		fn = "fn t" + id + "(x: " + S + ", z: " + T + ") { " + setup + "let c := fn(v: " + T + ") {}; c(" + e + "); }"
	case "closure_ret":
		fn = "fn t" + id + "(x: " + S + ", z: " + T + ") { " + setup + "let c := fn() -> " + T + " { return " + e + "; }; }"
	case "field_assign":
		pre = append(pre, "type WT"+id+" struct { .F: "+T+" };")
		fn = "fn t" + id + "(x: " + S + ", z: " + T + ") { " + setup + "let w: WT" + id + " = {.F = z}; w.F = " + e + "; }"
	case "elem_assign":
		fn = "fn t" + id + "(x: " + S + ", z: " + T + ") { " + setup + "let a: [2]" + T + " = [z, z]; a[1] = " + e + "; }"
	case "dynarr_elem":
		fn = "fn t" + id + "(x: " + S + ", z: " + T + ") { " + setup + "let a: []" + T + " = [z, " + e + "]; }"
	case "append":
		fn = "fn t" + id + "(x: " + S + ", z: " + T + ") { " + setup + "let a: []" + T + " = [z]; append(&'a, " + e + "); }"
	case "result_ret":
		fn = "fn t" + id + "(x: " + S + ", z: " + T + ") -> str ! " + T + " { " + setup + "return " + e + "; }"
	case "nested_field":
		pre = append(pre, "type IN"+id+" struct { .G: "+T+" };", "type OUT"+id+" struct { .I: IN"+id+" };")
		fn = "fn t" + id + "(x: " + S + ", z: " + T + ") { " + setup + "let w: OUT" + id + " = {.I = {.G = " + e + "}}; }"
	case "ref_target_assign":
		fn = "fn t" + id + "(x: " + S + ", z: " + T + ") { " + setup + "let y: " + T + " = z; let r: &'" + T + " = &'y; r = " + e + "; }"
	}
	return append(pre, fn)
}

func c11Program(lines []c11Line, include []bool) (string, []int) {
	var b strings.Builder
	b.WriteString("import \"std/io\";\n")
	lineOwner := []int{-1, -1} // index 0 unused, line 1 = import
	for i, l := range lines {
		if include != nil && !include[i] {
			continue
		}
		for _, s := range l.render(i) {
			b.WriteString(s + "\n")
			lineOwner = append(lineOwner, i)
		}
	}
	b.WriteString("fn main() { io::Println(1); }\n")
	lineOwner = append(lineOwner, -1)
	return b.String(), lineOwner
}

func c11Check(env *core.Env, ci any) (res core.Result) {
	c := ci.(*c11Case)
	tc := tcOf(env)
	n := len(c.Lines)
	include := make([]bool, n)
	for i := range include {
		include[i] = true
	}
	rejected := make([]bool, n)
	var lastOut string
	for round := 0; round < 4; round++ {
		text, owner := c11Program(c.Lines, include)
		dir := env.NextDir()
		sut.WriteProject(dir, map[string]string{"main.fer": text})
		r := tc.Compile(dir, sut.CompileOpts{TypeOnly: true})
		lastOut = r.Out
		if r.Crash != "" || r.TimedOut {
			res.Discard = "compiler crash/timeout (C13's matter): " + r.Crash
			return
		}
		errs := r.Errors()
		if r.Exit == 0 && len(errs) == 0 {
			break // every included line is accepted by a compilation that succeeded as a whole
		}
		progress := false
		for _, d := range errs {
			if !d.HasLoc || d.Line <= 0 || d.Line >= len(owner) || owner[d.Line] < 0 {
				res.Discard = "error not attributable to a test line: " + d.Msg
				return
			}
			i := owner[d.Line]
			if include[i] {
				include[i] = false
				rejected[i] = true
				progress = true
			}
		}
		if !progress {
			res.Discard = "compilation failed without attributable errors"
			return
		}
	}
	_ = lastOut
	nonTriv := 0
	var bad []string
	badKey := ""
	for i, l := range c.Lines {
		s, t := numTypeByName(l.S), numTypeByName(l.T)
		if l.S != l.T {
			nonTriv++
		}
		if rejected[i] {
			env.Stats.Label("rejected")
			if lossless(s, t) {
				env.Stats.Label("rejected_though_lossless") // allowed by the property; reported as information
			}
			continue
		}
		env.Stats.Label("accepted")
		if l.S != l.T {
			env.Stats.Label("accepted_implicit:" + l.Pos)
		}
		if l.S != l.T && !lossless(s, t) {
			key := l.S + "->" + l.T
			if env.Known.IsKnown("C11", key) {
				env.Stats.Label("known_hit:" + key)
				continue
			}
			bad = append(bad, fmt.Sprintf("%s -> %s accepted implicitly at position %s (source form %s): not every %s is exactly representable in %s\n  %s",
				l.S, l.T, l.Pos, l.Src, l.S, l.T, strings.Join(l.render(i), "\n  ")))
			if badKey == "" {
				badKey = key
			}
		}
	}
	res.NonTrivial = nonTriv > 0
	if len(bad) > 0 {
		sort.Strings(bad)
		res.Violation = strings.Join(bad, "\n")
		res.VKey = badKey
	}
	return
}

func c11Exhaustive(env *core.Env) []any {
	// one case per (S, position): all 17 targets, plain parameter as source
	var cases []any
	for _, s := range numTypes {
		for _, pos := range c11Positions {
			c := &c11Case{}
			for _, t := range numTypes {
				c.Lines = append(c.Lines, c11Line{S: s.Name, T: t.Name, Pos: pos, Src: "param"})
			}
			cases = append(cases, c)
		}
	}
	return cases
}

func c11Gen(t *rapid.T, env *core.Env) any {
	names := make([]string, len(numTypes))
	for i, nt := range numTypes {
		names[i] = nt.Name
	}
	allPos := append(append([]string{}, c11Positions...), c11MorePositions...)
	n := rapid.IntRange(8, 40).Draw(t, "n")
	c := &c11Case{}
	for i := 0; i < n; i++ {
		l := c11Line{
			S:   rapid.SampledFrom(names).Draw(t, "S"),
			T:   rapid.SampledFrom(names).Draw(t, "T"),
			Pos: rapid.SampledFrom(allPos).Draw(t, "pos"),
			Src: rapid.SampledFrom(c11Sources).Draw(t, "src"),
		}
		if (l.Src == "neg") && !numTypeByName(l.S).Signed && !numTypeByName(l.S).Float {
			l.Src = "sum"
		}
		c.Lines = append(c.Lines, l)
	}
	return c
}

func init() {
	core.Register(&core.Prop{
		ID:         "C11",
		Rule:       "exhaustive: all 17x17 ordered pairs of numeric types (i8..i256, u8..u256, f32..f256, byte) x 6 positions (let, assignment, argument, return, struct field initialiser, fixed-array element) with a parameter as source, each position file compiled with `ferret -t` and re-compiled until the accepted subset compiles as a whole; rapid: random (S,T) x 16 positions x 13 source-expression forms. Oracle: range/significand arithmetic from first principles. non-trivial = a batch containing >=1 pair with S != T; distinct = hash of the batch",
		Gen:        c11Gen,
		New:        func() any { return &c11Case{} },
		Check:      c11Check,
		Exhaustive: c11Exhaustive,
		Assumptions: []string{
			"float formats: f32 24-bit, f64 53-bit, f128 113-bit (binary128), f256 237-bit significand (runtime/core/bigint.h)",
			"byte has the value range of u8",
			"a test line counts as accepted only when a whole compilation containing it succeeds (exit 0, no error diagnostic)",
			"rejection of a lossless conversion is allowed by the property (reported as a label only)",
		},
	})
}
