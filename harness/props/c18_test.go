package props

// C18 (white-box part) — composite layout soundness.
// Generated type expressions are laid out by the compiler's own DataLayout for
// both targets (pointer size 8 = native, 4 = wasm) and the layout invariants that
// make "every component stays intact" possible are checked: aligned, pairwise
// disjoint, inside the object, discriminants inside the object and outside the
// payloads.  The black-box part (programs that store/read back through both
// back ends) lives in c18bb_test.go.

import (
	"fmt"
	"os"
	"strings"

	"compiler/internal/mir"
	"compiler/internal/types"
	"compiler/verifharness/core"
	"compiler/verifharness/fer"

	"pgregory.net/rapid"
)

type c18Type struct {
	K string     `json:"k"`           // prim | struct | array | dyn | opt | res | ref | named
	N string     `json:"n,omitempty"` // primitive name
	L int        `json:"l,omitempty"` // array length
	E []*c18Type `json:"e,omitempty"` // children (struct fields; [elem]; [ok, err])
}
type c18Case struct {
	T *c18Type `json:"t,omitempty"`
	// black-box half: a generated program that stores / copies / passes composite values and dumps
	// every component after each step (decided by the differential oracle of C01)
	Prog *progCase `json:"prog,omitempty"`
}

func (c *c18Case) Files() map[string]string {
	if c.Prog != nil {
		return c.Prog.Files()
	}
	return nil
}

var c18Prims = map[string]types.SemType{
	"i8": types.TypeI8, "i16": types.TypeI16, "i32": types.TypeI32, "i64": types.TypeI64, "i128": types.TypeI128, "i256": types.TypeI256,
	"u8": types.TypeU8, "u16": types.TypeU16, "u32": types.TypeU32, "u64": types.TypeU64, "u128": types.TypeU128, "u256": types.TypeU256,
	"f32": types.TypeF32, "f64": types.TypeF64, "f128": types.TypeF128, "f256": types.TypeF256,
	"bool": types.TypeBool, "byte": types.TypeByte, "str": types.TypeString,
}
var c18PrimNames = []string{"i8", "i16", "i32", "i64", "i128", "i256", "u8", "u16", "u32", "u64", "u128", "u256", "f32", "f64", "f128", "f256", "bool", "byte", "str"}

func (t *c18Type) sem(counter *int) types.SemType {
	switch t.K {
	case "prim":
		return c18Prims[t.N]
	case "struct":
		var fs []types.StructField
		for i, e := range t.E {
			fs = append(fs, types.StructField{Name: fmt.Sprintf("F%d", i), Type: e.sem(counter)})
		}
		*counter++
		return types.NewStruct(fmt.Sprintf("S%d", *counter), fs)
	case "array":
		return types.NewArray(t.E[0].sem(counter), t.L)
	case "dyn":
		return types.NewArray(t.E[0].sem(counter), -1)
	case "opt":
		return types.NewOptional(t.E[0].sem(counter))
	case "res":
		return types.NewResult(t.E[0].sem(counter), t.E[1].sem(counter))
	case "ref":
		return types.NewReference(t.E[0].sem(counter))
	case "named":
		*counter++
		return types.NewNamed(fmt.Sprintf("N%d", *counter), t.E[0].sem(counter))
	}
	panic("bad type kind " + t.K)
}

func (t *c18Type) String() string {
	switch t.K {
	case "prim":
		return t.N
	case "struct":
		var p []string
		for _, e := range t.E {
			p = append(p, e.String())
		}
		return "struct{" + strings.Join(p, ", ") + "}"
	case "array":
		return fmt.Sprintf("[%d]%s", t.L, t.E[0])
	case "dyn":
		return "[]" + t.E[0].String()
	case "opt":
		return t.E[0].String() + "?"
	case "res":
		return "(" + t.E[1].String() + " ! " + t.E[0].String() + ")"
	case "ref":
		return "&" + t.E[0].String()
	case "named":
		return "named(" + t.E[0].String() + ")"
	}
	return "?"
}

func c18GenType(t *rapid.T, depth int) *c18Type {
	k := rapid.IntRange(0, 11).Draw(t, "kind")
	if depth <= 0 || k <= 3 {
		return &c18Type{K: "prim", N: rapid.SampledFrom(c18PrimNames).Draw(t, "prim")}
	}
	switch k {
	case 4, 5, 6:
		n := rapid.IntRange(1, 6).Draw(t, "nfields")
		st := &c18Type{K: "struct"}
		for i := 0; i < n; i++ {
			st.E = append(st.E, c18GenType(t, depth-1))
		}
		return st
	case 7:
		return &c18Type{K: "array", L: rapid.IntRange(1, 5).Draw(t, "len"), E: []*c18Type{c18GenType(t, depth-1)}}
	case 8:
		return &c18Type{K: "opt", E: []*c18Type{c18GenType(t, depth-1)}}
	case 9:
		return &c18Type{K: "res", E: []*c18Type{c18GenType(t, depth-1), c18GenType(t, depth-1)}}
	case 10:
		return &c18Type{K: rapid.SampledFrom([]string{"ref", "dyn"}).Draw(t, "ptrkind"), E: []*c18Type{c18GenType(t, depth-1)}}
	default:
		return &c18Type{K: "named", E: []*c18Type{c18GenType(t, depth-1)}}
	}
}

func c18Gen(t *rapid.T, env *core.Env) any {
	// one case in 40 is a black-box program (they cost a compilation and a run each)
	if rapid.IntRange(0, 39).Draw(t, "blackbox") == 23 { // (a value rapid does not favour)
		p := fer.GenerateLayouts(t, env.Use)
		out := fer.Run(p)
		pc := &progCase{Src: p.Source(), Expect: out.Lines, Term: out.Term, Features: p.Features, Stats: map[string]int{"steps": out.Steps, "loop_iters": 1}}
		if out.Err != "" {
			pc.Discard = "model: " + out.Err
		}
		return &c18Case{Prog: pc}
	}
	return &c18Case{T: c18GenType(t, rapid.IntRange(1, 4).Draw(t, "depth"))}
}

func alignUp(v, a int) int {
	if a <= 1 {
		return v
	}
	return (v + a - 1) / a * a
}

type c18Stats struct {
	widths         map[int]bool
	wide           bool
	optAfterNarrow bool
	composite      int
}

// c18Inv checks the invariants of t and all its sub-terms; returns the first violation.
func c18Inv(d *mir.DataLayout, t *c18Type, counter *int, st *c18Stats) (types.SemType, string) {
	var kids []types.SemType
	for _, e := range t.E {
		k, msg := c18Inv(d, e, counter, st)
		if msg != "" {
			return nil, msg
		}
		kids = append(kids, k)
	}
	var T types.SemType
	switch t.K {
	case "prim":
		T = c18Prims[t.N]
	case "struct":
		var fs []types.StructField
		for i, k := range kids {
			fs = append(fs, types.StructField{Name: fmt.Sprintf("F%d", i), Type: k})
		}
		*counter++
		T = types.NewStruct(fmt.Sprintf("S%d", *counter), fs)
	case "array":
		T = types.NewArray(kids[0], t.L)
	case "dyn":
		T = types.NewArray(kids[0], -1)
	case "opt":
		T = types.NewOptional(kids[0])
	case "res":
		T = types.NewResult(kids[0], kids[1])
	case "ref":
		T = types.NewReference(kids[0])
	case "named":
		*counter++
		T = types.NewNamed(fmt.Sprintf("N%d", *counter), kids[0])
	}
	size, align := d.SizeOf(T), d.AlignOf(T)
	where := fmt.Sprintf("%s (pointer size %d): size %d align %d", t, d.PointerSize, size, align)
	if size < 0 {
		return nil, "negative size: " + where
	}
	if align < 1 || align&(align-1) != 0 {
		return nil, "alignment is not a power of two: " + where
	}
	if size%align != 0 {
		return nil, "size is not a multiple of the alignment (array elements / following fields would be misaligned): " + where
	}
	switch t.K {
	case "prim":
		st.widths[size] = true
		if size >= 16 {
			st.wide = true
		}
	case "struct":
		st.composite++
		s := types.UnwrapType(T).(*types.StructType)
		lay := d.StructLayout(s)
		if len(lay.Fields) != len(kids) {
			return nil, fmt.Sprintf("struct layout has %d fields, type has %d: %s", len(lay.Fields), len(kids), where)
		}
		end := 0
		maxAlign := 1
		for i, f := range lay.Fields {
			fs, fa := d.SizeOf(kids[i]), d.AlignOf(kids[i])
			if fa > maxAlign {
				maxAlign = fa
			}
			if f.Offset%fa != 0 {
				return nil, fmt.Sprintf("field %d at offset %d is not aligned to %d: %s", i, f.Offset, fa, where)
			}
			if f.Offset < end {
				return nil, fmt.Sprintf("field %d at offset %d overlaps the previous field ending at %d: %s", i, f.Offset, end, where)
			}
			if off, ok := lay.FieldOffset(f.Name); !ok || off != f.Offset {
				return nil, fmt.Sprintf("FieldOffset(%s) = %d,%v disagrees with the field table (%d): %s", f.Name, off, ok, f.Offset, where)
			}
			if i > 0 && t.E[i].K == "opt" && d.SizeOf(kids[i-1]) < fa {
				st.optAfterNarrow = true
			}
			end = f.Offset + fs
		}
		if end > lay.Size || lay.Size != size {
			return nil, fmt.Sprintf("last field ends at %d beyond the struct size %d (SizeOf %d): %s", end, lay.Size, size, where)
		}
		if lay.Align != maxAlign || align != maxAlign {
			return nil, fmt.Sprintf("struct alignment %d/%d is not the maximum field alignment %d: %s", lay.Align, align, maxAlign, where)
		}
	case "array":
		st.composite++
		es := d.SizeOf(kids[0])
		if size != es*t.L {
			return nil, fmt.Sprintf("array size is not length x element size (%d x %d): %s", t.L, es, where)
		}
		if align < d.AlignOf(kids[0]) {
			return nil, "array is less aligned than its element: " + where
		}
	case "opt":
		st.composite++
		is := d.SizeOf(kids[0])
		// consumers (optional.c, map.c get_optional_out, both emitters) put the 1-byte flag at offset SizeOf(inner)
		if is+1 > size {
			return nil, fmt.Sprintf("optional flag byte at offset %d lies outside the optional: %s", is, where)
		}
		if align < d.AlignOf(kids[0]) {
			return nil, "optional is less aligned than its payload: " + where
		}
	case "res":
		st.composite++
		os_, es := d.SizeOf(kids[0]), d.SizeOf(kids[1])
		ua := max(d.AlignOf(kids[0]), d.AlignOf(kids[1]), 1)
		// consumer formula (qbe emit.go resultTagOffset): tag at alignTo(max(okSize, errSize), unionAlign)
		tag := alignUp(max(os_, es), ua)
		if tag < max(os_, es) {
			return nil, "result tag inside a payload: " + where
		}
		if tag+1 > size {
			return nil, fmt.Sprintf("result discriminant at offset %d lies outside the result (size %d): %s", tag, size, where)
		}
		if align < ua {
			return nil, "result is less aligned than its payloads: " + where
		}
	case "ref", "dyn":
		if size != d.PointerSize {
			return nil, "reference/dynamic array is not pointer sized: " + where
		}
	case "named":
		if size != d.SizeOf(kids[0]) || align != d.AlignOf(kids[0]) {
			return nil, "named type changes the layout of its underlying type: " + where
		}
	}
	return T, ""
}

func c18Check(env *core.Env, ci any) (res core.Result) {
	c := ci.(*c18Case)
	if c.Prog != nil {
		r := runNativeDiff(env, c.Prog, "C18")
		r.Key = c.Prog.Src
		r.Labels = append(r.Labels, "black_box_program")
		if strings.HasPrefix(r.VKey, "rejected") || strings.HasPrefix(r.VKey, "compiler_") || strings.HasPrefix(r.VKey, "qbe_assert") {
			// acceptance and compiler crashes are C01's / C13's matter
			r.Discard = "program not compiled (C01/C13's matter): " + r.VKey
			if d := os.Getenv("VERIF_C18_DUMP"); d != "" {
				os.WriteFile(fmt.Sprintf("%s.%d.fer", d, len(c.Prog.Src)), []byte(c.Prog.Src+"\n/* "+r.VKey+" */\n"), 0o644)
			}
			r.Violation, r.VKey = "", ""
			return r
		}
		if r.Violation != "" {
			r.Violation = "a component of a composite value does not keep its value (store / copy / pass / return of structs and arrays)\n" + r.Violation
			r.VKey = "component_changed:" + r.VKey
			return r
		}
		r.NonTrivial = true
		r.Sample = fmt.Sprintf("%q", c.Prog.Src[:min(len(c.Prog.Src), 1200)])
		return r
	}
	defer func() {
		if r := recover(); r != nil {
			res.Violation = fmt.Sprintf("panic while laying out %s: %v", c.T, r)
			res.VKey = "panic"
		}
	}()
	st := &c18Stats{widths: map[int]bool{}}
	for _, ps := range []int{8, 4} {
		n := 0
		if _, msg := c18Inv(mir.NewDataLayout(ps), c.T, &n, st); msg != "" {
			res.Violation = msg
			w := strings.Fields(strings.SplitN(msg, ":", 2)[0])
			if len(w) > 3 {
				w = w[:3]
			}
			res.VKey = strings.Join(w, "_")
			return
		}
	}
	res.NonTrivial = st.composite > 0 && ((len(st.widths) >= 3 && st.wide) || st.optAfterNarrow)
	res.Key = c.T.String()
	res.Sample = fmt.Sprintf("%q", c.T.String())
	if st.optAfterNarrow {
		res.Labels = append(res.Labels, "optional_after_narrow_field")
	}
	if st.wide {
		res.Labels = append(res.Labels, "has_16+_byte_primitive")
	}
	res.Labels = append(res.Labels, "root:"+c.T.K)
	return
}

func init() {
	core.Register(&core.Prop{
		ID:    "C18",
		Rule:  "(a) white-box: rapid-generated type expressions up to depth 4 (structs of 1-6 fields over 19 primitives of 1..32 bytes, nested structs, fixed arrays, optionals, results, references, dynamic arrays, named types) laid out by mir.NewDataLayout(8) and (4); invariants on every sub-term: size multiple of a power-of-two alignment, struct fields aligned / ordered / pairwise disjoint / inside the struct, FieldOffset consistent, array size = len x element size, optional flag byte at SizeOf(inner) inside the optional, result discriminant at alignTo(max(ok,err), align) inside the result and outside both payloads. black-box: see evidence key 'blackbox'. non-trivial = a composite with >=3 distinct primitive widths incl. one >=16 bytes, or an optional following a narrower field; distinct = the rendered type expression (b) black-box (1 case in 40; structs of 1-7 fields, in half of the programs with a look-alike sibling struct - same field names, same first two and last fields, one or two middle fields of another width - that has its own variable, array, stores and copies): rapid-generated programs with structs of 1-5 fields over 8/16/32/64-bit integers and bools (nested structs, small fixed arrays as fields), arrays of such structs and small-integer arrays between canary variables; element-wise, field-wise and whole stores, copies, by-value updates through a function; after every step every leaf of every variable is printed and compared with the reference interpreter (native executable)",
		Gen:   c18Gen,
		New:   func() any { return &c18Case{} },
		Check: c18Check,
		Assumptions: []string{
			"consumer offsets are taken as documented: optional flag at SizeOf(inner) (optional.c, map.c), result tag at alignTo(max(okSize, errSize), unionAlign) (qbe emit.go resultTagOffset)",
		},
	})
}
