package props

// C01 — native executables behave as the source program's defined semantics.
// Differential against the reference interpreter of package fer: a generated,
// well-typed core-language program must be accepted, and its executable must
// print exactly the interpreter's lines and terminate the same way.

import (
	"fmt"
	"path/filepath"
	"regexp"
	"sort"
	"strings"

	"compiler/verifharness/core"
	"compiler/verifharness/fer"
	"compiler/verifharness/sut"

	"pgregory.net/rapid"
)

var assertRe = regexp.MustCompile(`qbe/([a-z0-9_]+\.c:\d+: [a-z_]+: Assertion .*) failed`)
var identRe = regexp.MustCompile(`'[A-Za-z_][A-Za-z0-9_]*'`)

type progCase struct {
	Src      string         `json:"src"`
	Expect   []string       `json:"expect"`
	Term     string         `json:"term"` // ok | panic
	Features map[string]int `json:"features"`
	Stats    map[string]int `json:"stats"`
	Discard  string         `json:"discard,omitempty"`
}

func (c *progCase) Files() map[string]string { return map[string]string{"main.fer": c.Src} }

func genProgCase(t *rapid.T, env *core.Env, cfg fer.Config) *progCase {
	cfg.Use = env.Use
	p := fer.Generate(t, cfg)
	out := fer.Run(p)
	c := &progCase{Src: p.Source(), Expect: out.Lines, Term: out.Term, Features: p.Features,
		Stats: map[string]int{"steps": out.Steps, "calls": out.Calls, "loop_iters": out.LoopIters, "struct_copies": out.StructCopies, "ref_writes": out.RefWrites, "wraps": out.Wraps}}
	if out.Err != "" {
		c.Discard = "model: " + out.Err
	}
	return c
}

func c01Gen(t *rapid.T, env *core.Env) any {
	cfg := fer.Config{Structs: true, Methods: true, Enums: true, Fixed: true, Dyn: true, Str: true, Refs: true, Closures: true, Results: true, Recursion: true, Narrow: true, MaxScen: 6}
	cfg.Wide = rapid.IntRange(0, 3).Draw(t, "wide") == 0
	return genProgCase(t, env, cfg)
}

// runNativeDiff compiles and runs the program natively and compares with the expectation.
func runNativeDiff(env *core.Env, c *progCase, prop string) (res core.Result) {
	if c.Discard != "" {
		res.Discard = c.Discard
		return
	}
	tc := tcOf(env)
	dir := env.NextDir()
	sut.WriteProject(dir, c.Files())
	exe := filepath.Join(dir, "out.bin")
	r := tc.Compile(dir, sut.CompileOpts{Out: exe})
	for f := range c.Features {
		res.Labels = append(res.Labels, "feat:"+f)
	}
	sort.Strings(res.Labels)
	if r.TimedOut || r.Crash != "" {
		res.Violation = fmt.Sprintf("compiler crashed or hung on a well-typed core program (%s%v)\n%s\n%s", r.Crash, r.TimedOut, firstLines(r.Out, 12), c.Src)
		res.VKey = "compiler_crash:" + r.Crash
		if r.TimedOut {
			res.VKey = "compiler_hang"
		}
		if m := assertRe.FindStringSubmatch(r.Out); m != nil {
			res.VKey = "qbe_assert:" + m[1]
		}
		return
	}
	if r.Exit != 0 || len(r.Errors()) > 0 {
		msg := "(no diagnostic)"
		key := "rejected"
		if es := r.Errors(); len(es) > 0 {
			msg = fmt.Sprintf("%s (line %d)", es[0].Msg, es[0].Line)
			w := strings.Fields(identRe.ReplaceAllString(es[0].Msg, "'X'"))
			if len(w) > 4 {
				w = w[:4]
			}
			key = "rejected:" + strings.Join(w, "_")
		}
		res.Violation = "well-typed core-language program is rejected: " + msg + "\n" + firstLines(r.Out, 14) + "\n--- program ---\n" + c.Src
		res.VKey = key
		return
	}
	run := sut.RunNative(exe, 0)
	got := strings.Split(strings.TrimRight(run.Stdout, "\n"), "\n")
	if run.Stdout == "" {
		got = nil
	}
	term := run.Term()
	st := c.Stats
	res.NonTrivial = st["steps"] >= 40 && (st["calls"] > len(c.Expect)/8+3 || st["loop_iters"] > 0 || st["struct_copies"] > 0)
	if term == "timeout" {
		res.Violation = "executable did not terminate (10 s); the reference semantics terminate after " + fmt.Sprint(st["steps"]) + " steps\n--- program ---\n" + c.Src
		res.VKey = "run_timeout"
		return
	}
	if term != c.Term {
		res.Violation = fmt.Sprintf("termination differs: executable %s (stderr %q), reference semantics %s\nstdout: %s\n--- program ---\n%s", term, firstLines(run.Stderr, 3), c.Term, firstLines(run.Stdout, 30), c.Src)
		res.VKey = "termination:" + term
		return
	}
	for i := 0; i < len(got) || i < len(c.Expect); i++ {
		var g, w string
		if i < len(got) {
			g = got[i]
		} else {
			g = "<missing>"
		}
		if i < len(c.Expect) {
			w = c.Expect[i]
		} else {
			w = "<no more lines>"
		}
		if g != w {
			res.Violation = fmt.Sprintf("output line %d differs: executable printed %q, the semantics prescribe %q\n--- program ---\n%s", i+1, g, w, c.Src)
			res.VKey = "wrong_output"
			return
		}
	}
	return
}

func c01Check(env *core.Env, ci any) core.Result {
	c := ci.(*progCase)
	r := runNativeDiff(env, c, "C01")
	r.Key = c.Src
	if r.NonTrivial {
		s := c.Src
		if len(s) > 1200 {
			s = s[:1200] + "\n..."
		}
		r.Sample = fmt.Sprintf("%q", s)
	}
	return r
}

func init() {
	core.Register(&core.Prop{
		ID:    "C01",
		Rule:  "rapid-generated well-typed core-language programs (package fer: 1-6 scenario functions + helpers; i8..i64/u8..u64 and, in a quarter of the cases, i128..u256; bool, str, nested structs with value/&/&' receiver methods and by-value update functions, enums with match, integer match, fixed arrays (copy, constant-index element assignment), whole-value assignment of a struct / array literal that reads the assigned variable, dynamic arrays (append, for-in with index, several element stores through one array value - the local or a []T parameter), references (&' parameters whose bodies use the reference itself as an operand of + - comparisons with values, literals and itself, local &' in a block), closures capturing by reference, results with both catch forms, recursion, if/else-if/else, fuelled while with break/continue, typed and literal for-ranges; boundary-heavy literals) compiled natively and run; oracle = reference interpreter written from the property statements (math/big wrap to the declared width after every operation, truncating / and %, left-to-right evaluation, value semantics for structs/fixed arrays, write-through references). The program must be accepted, print exactly the interpreter's lines and terminate the same way. non-trivial = >= 40 interpreter steps and a value flowing through a call chain, a loop or an aggregate copy; distinct = hash of the program text",
		Gen:   c01Gen,
		New:   func() any { return &progCase{} },
		Check: c01Check,
		Assumptions: []string{
			"the reference interpreter (harness/fer) is the definition of the core semantics; constructs whose meaning the documentation leaves open are not generated (division by zero, MIN / -1, narrowing casts, aliasing of dynamic arrays)",
			"floats, maps, interfaces, unions, optionals and module-level variables are outside the property's core list and not generated",
		},
	})
}
