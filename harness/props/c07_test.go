package props

// C07 — references obey aliasing-xor-mutation and never outlive their referent.
//
// Event-sequence generator.  A program is a structured sequence of borrow episodes over
// places (variables, field paths, one array element): create a reference, do things while
// it is live, use it a last time, touch the place afterwards.  Everything generated while a
// loan is live is chosen so that it does not conflict (disjoint fields, reads under shared
// loans, uses of the reference itself); optionally exactly one conflicting access is
// injected.  An independent loan model (textual last use, prefix overlap) re-derives the
// label from the finished statement list: conflict-free programs must be accepted, run, and
// print what the reference interpreter prints (writes through references visible through
// the referent and vice versa); programs with the injected conflict must be rejected, and
// their conflict-free twin accepted.  A second family returns references from functions.

import (
	"fmt"
	"math/big"
	"strings"

	"compiler/verifharness/core"
	"compiler/verifharness/fer"
	"compiler/verifharness/sut"

	"pgregory.net/rapid"
)

type c07Case struct {
	Src      string   `json:"src"`              // the program under test
	Twin     string   `json:"twin,omitempty"`   // conflict-free twin of a must-reject program
	Label    string   `json:"label"`            // accept | reject
	Family   string   `json:"family"`           // loans | return
	Expect   []string `json:"expect,omitempty"` // interpreter output of the accepted program (Src or Twin)
	Term     string   `json:"term,omitempty"`
	Conflict string   `json:"conflict,omitempty"`
	Shape    string   `json:"shape"`
	Discard  string   `json:"discard,omitempty"`
}

func (c *c07Case) Files() map[string]string {
	m := map[string]string{"main.fer": c.Src}
	if c.Twin != "" {
		m["twin/main.fer"] = c.Twin
	}
	return m
}

// ---- places

type c07Place struct {
	root string
	path []string // field names or "[1]"
}

func (p c07Place) String() string {
	s := p.root
	for _, e := range p.path {
		if strings.HasPrefix(e, "[") {
			s += e
		} else {
			s += "." + e
		}
	}
	return s
}

func c07Prefix(a, b []string) bool {
	if len(a) > len(b) {
		return false
	}
	for i := range a {
		if a[i] != b[i] {
			return false
		}
	}
	return true
}

// overlap: same variable and one path is a prefix of the other
func c07Overlap(p, q c07Place) bool {
	return p.root == q.root && (c07Prefix(p.path, q.path) || c07Prefix(q.path, p.path))
}

// sibling elements of one array: the statement does not settle whether they conflict
func c07SiblingElems(p, q c07Place) bool {
	if p.root != q.root || len(p.path) == 0 || len(q.path) == 0 {
		return false
	}
	n := min(len(p.path), len(q.path))
	for i := 0; i < n; i++ {
		if p.path[i] != q.path[i] {
			return strings.HasPrefix(p.path[i], "[") && strings.HasPrefix(q.path[i], "[")
		}
	}
	return false
}

var (
	c07I32 = fer.IntT(32, true)
	c07T   = &fer.Type{K: fer.KStruct, Name: "T", Fields: []fer.Field{{Name: "C", T: c07I32}, {Name: "D", T: c07I32}}}
	c07S   = &fer.Type{K: fer.KStruct, Name: "S", Fields: []fer.Field{{Name: "A", T: c07I32}, {Name: "B", T: c07I32}, {Name: "In", T: c07T}}}
	c07Arr = &fer.Type{K: fer.KFixed, Elem: c07I32, Len: 3}
)

var c07RootT = map[string]*fer.Type{"x": c07I32, "y": c07I32, "s": c07S, "t": c07S, "fa": c07Arr}

func (p c07Place) typ() *fer.Type {
	t := c07RootT[p.root]
	for _, e := range p.path {
		if strings.HasPrefix(e, "[") {
			t = t.Elem
			continue
		}
		for _, f := range t.Fields {
			if f.Name == e {
				t = f.T
			}
		}
	}
	return t
}

func (p c07Place) expr() fer.Expr {
	var e fer.Expr = &fer.Var{T: c07RootT[p.root], Name: p.root}
	t := c07RootT[p.root]
	for _, el := range p.path {
		if strings.HasPrefix(el, "[") {
			var ix int64
			fmt.Sscanf(el, "[%d]", &ix)
			t = t.Elem
			e = &fer.Index{T: t, X: e, I: &fer.Lit{T: c07I32, I: big.NewInt(ix)}}
			continue
		}
		for _, f := range t.Fields {
			if f.Name == el {
				t = f.T
			}
		}
		e = &fer.FieldX{T: t, X: e, Name: el}
	}
	return e
}

var c07Places = []c07Place{
	{"x", nil}, {"y", nil},
	{"s", nil}, {"s", []string{"A"}}, {"s", []string{"B"}}, {"s", []string{"In"}}, {"s", []string{"In", "C"}}, {"s", []string{"In", "D"}},
	{"t", nil}, {"t", []string{"A"}}, {"t", []string{"In"}}, {"t", []string{"In", "C"}},
	{"fa", nil}, {"fa", []string{"[1]"}},
}

// ---- events

type c07Ev struct {
	Kind     string // borrow use_read use_write read write call_mut call_shared call_two open close if_open
	Ref      string
	From     string // borrow: the new reference is a copy of this (shared) reference variable
	Mut      bool
	P, P2    c07Place
	Injected bool
	Val      int64
}

type c07Loan struct {
	ref     string
	p       c07Place
	mut     bool
	created int
	lastUse int
}

// c07Model is the independent oracle: it returns a description of every conflict in the event list.
func c07Model(evs []c07Ev) []string {
	loans := map[string]*c07Loan{}
	var order []*c07Loan
	for i, e := range evs {
		switch e.Kind {
		case "borrow":
			l := &c07Loan{ref: e.Ref, p: e.P, mut: e.Mut, created: i, lastUse: i}
			loans[e.Ref] = l
			order = append(order, l)
			if src := loans[e.From]; src != nil {
				src.lastUse = i // copying a reference uses it
			}
		case "use_read", "use_write":
			if l := loans[e.Ref]; l != nil {
				l.lastUse = i
			}
		}
	}
	var out []string
	access := func(i int, p c07Place, kind string, self string) {
		for _, l := range order {
			if l.ref == self || l.created >= i || l.lastUse <= i {
				continue
			}
			if !c07Overlap(p, l.p) {
				continue
			}
			if l.mut || kind == "write" || kind == "mut_borrow" {
				mk := "shared"
				if l.mut {
					mk = "mutable"
				}
				out = append(out, fmt.Sprintf("statement %d: %s of %s while the %s reference %s to %s is still used later (statement %d)", i, kind, p, mk, l.ref, l.p, l.lastUse))
			}
		}
	}
	for i, e := range evs {
		switch e.Kind {
		case "borrow":
			k := "shared_borrow"
			if e.Mut {
				k = "mut_borrow"
			}
			access(i, e.P, k, e.Ref)
		case "read":
			access(i, e.P, "read", "")
		case "write":
			access(i, e.P, "write", "")
		case "call_mut":
			access(i, e.P, "mut_borrow", "")
		case "call_shared":
			access(i, e.P, "shared_borrow", "")
		case "call_two":
			access(i, e.P, "mut_borrow", "")
			access(i, e.P2, "mut_borrow", "")
			if c07Overlap(e.P, e.P2) {
				out = append(out, fmt.Sprintf("statement %d: two mutable borrows of overlapping places %s and %s in one call", i, e.P, e.P2))
			}
		}
	}
	return out
}

// ---- generator

type c07Gen struct {
	t       *rapid.T
	evs     []c07Ev
	live    []*c07Loan // loans whose final use has not been emitted
	nref    int
	val     int64
	inject  bool // still wants to inject one conflict
	shape   map[string]int
	inBlock int

	forceMasked bool
}

func (g *c07Gen) nextVal() int64 { g.val++; return 10 + g.val }

func (g *c07Gen) safe(p c07Place, kind string) bool {
	for _, l := range g.live {
		if c07SiblingElems(p, l.p) {
			return false
		}
		if !c07Overlap(p, l.p) {
			continue
		}
		if l.mut || kind == "write" || kind == "mut_borrow" {
			return false
		}
	}
	return true
}

func (g *c07Gen) pick(pred func(p c07Place) bool, label string) (c07Place, bool) {
	var cands []c07Place
	for _, p := range c07Places {
		if pred(p) {
			cands = append(cands, p)
		}
	}
	if len(cands) == 0 {
		return c07Place{}, false
	}
	return cands[rapid.IntRange(0, len(cands)-1).Draw(g.t, label)], true
}

func c07Scalar(p c07Place) bool { return p.typ().K == fer.KInt }

func (g *c07Gen) emit(e c07Ev) { g.evs = append(g.evs, e) }

// conflictWith emits one access that conflicts with loan l
func (g *c07Gen) conflictWith(l *c07Loan) {
	// an overlapping place (prefix relation), not a sibling element
	p, ok := g.pick(func(p c07Place) bool { return c07Overlap(p, l.p) }, "conflict_place")
	if !ok {
		return
	}
	kinds := []string{"write", "mut_borrow_call", "mut_borrow_let"}
	if l.mut {
		kinds = append(kinds, "read", "shared_borrow_call", "shared_borrow_let")
	}
	// A read-like access that a newer shared loan on a disjoint part would allow, but the older
	// mutable loan forbids (the conflict must be found behind the most recent overlapping loan).
	masked := false
	if l.mut {
		for i, older := range g.live {
			if older != l {
				continue
			}
			for _, newer := range g.live[i+1:] {
				if newer.mut || c07Overlap(newer.p, l.p) {
					continue
				}
				if q, ok2 := g.pick(func(q c07Place) bool { return c07Overlap(q, l.p) && c07Overlap(q, newer.p) }, "masked_place"); ok2 && (g.forceMasked || rapid.Bool().Draw(g.t, "masked")) {
					p, masked = q, true
					kinds = []string{"read", "read", "shared_borrow_let"}
				}
			}
		}
	}
	k := rapid.SampledFrom(kinds).Draw(g.t, "conflict_kind")
	if masked {
		g.shape["conflict_behind_newer_shared_loan"]++
	}
	switch k {
	case "write":
		g.emit(c07Ev{Kind: "write", P: p, Val: g.nextVal(), Injected: true})
	case "read":
		g.emit(c07Ev{Kind: "read", P: p, Injected: true})
	case "mut_borrow_call", "shared_borrow_call":
		if !c07Scalar(p) {
			// calls take scalar references: fall back to a let borrow
			g.nref++
			r := fmt.Sprintf("r%d", g.nref)
			g.emit(c07Ev{Kind: "borrow", Ref: r, P: p, Mut: k == "mut_borrow_call", Injected: true})
			break
		}
		kind := "call_mut"
		if k == "shared_borrow_call" {
			kind = "call_shared"
		}
		g.emit(c07Ev{Kind: kind, P: p, Injected: true})
	default:
		g.nref++
		r := fmt.Sprintf("r%d", g.nref)
		g.emit(c07Ev{Kind: "borrow", Ref: r, P: p, Mut: k == "mut_borrow_let", Injected: true})
	}
	g.inject = false
	g.shape["conflict:"+k]++
	if len(p.path) != len(l.p.path) {
		g.shape["conflict_on_overlapping_path"]++
	}
}

func (g *c07Gen) body(budget, depth int) {
	for budget > 0 {
		budget--
		switch rapid.IntRange(0, 9).Draw(g.t, "step") {
		case 0, 1, 2: // a borrow episode
			mut := rapid.Bool().Draw(g.t, "mut")
			kind := "shared_borrow"
			if mut {
				kind = "mut_borrow"
			}
			// a live shared reference may also be copied into a second reference variable
			from := ""
			var p c07Place
			ok := false
			if !mut && rapid.IntRange(0, 2).Draw(g.t, "copy") == 0 {
				for _, l := range g.live {
					if !l.mut {
						from, p, ok = l.ref, l.p, true
					}
				}
				if ok {
					g.shape["reference_copy"]++
				}
			}
			if !ok && !mut && g.inject && rapid.IntRange(0, 3).Draw(g.t, "sibling_of_mut_loan") != 0 {
				// prefer a disjoint part of a variable that an older mutable loan holds a part of
				for _, o := range g.live {
					if o.mut && !ok {
						p, ok = g.pick(func(q c07Place) bool { return q.root == o.p.root && !c07Overlap(q, o.p) && g.safe(q, kind) }, "sibling_place")
					}
				}
			}
			if !ok {
				p, ok = g.pick(func(p c07Place) bool { return g.safe(p, kind) }, "place")
			}
			if !ok {
				continue
			}
			g.nref++
			l := &c07Loan{ref: fmt.Sprintf("r%d", g.nref), p: p, mut: mut}
			g.emit(c07Ev{Kind: "borrow", Ref: l.ref, From: from, P: p, Mut: mut})
			g.live = append(g.live, l)
			g.shape["episode"]++
			if len(g.live) > 1 {
				g.shape["nested_episode"]++
			}
			if g.inject && !mut {
				// an older mutable loan on a disjoint part of the same variable: a read of the whole
				// is allowed by this loan but not by the older one
				for _, o := range g.live[:len(g.live)-1] {
					if g.inject && o.mut && o.p.root == p.root && !c07Overlap(o.p, p) && rapid.IntRange(0, 3).Draw(g.t, "inject_masked") != 0 {
						g.forceMasked = true
						g.conflictWith(o)
						g.forceMasked = false
					}
				}
			}
			if depth > 0 {
				g.body(rapid.IntRange(0, 3).Draw(g.t, "inner"), depth-1)
			}
			if g.inject && rapid.IntRange(0, 1).Draw(g.t, "inject_here") == 0 {
				g.conflictWith(l)
			}
			// final use
			if mut && rapid.Bool().Draw(g.t, "final_write") {
				g.emit(c07Ev{Kind: "use_write", Ref: l.ref, Val: g.nextVal()})
			} else {
				g.emit(c07Ev{Kind: "use_read", Ref: l.ref})
			}
			g.live = g.live[:len(g.live)-1]
			// the place is free again (as far as other live loans allow)
			if rapid.Bool().Draw(g.t, "after") {
				if g.safe(p, "write") && rapid.Bool().Draw(g.t, "after_write") {
					g.emit(c07Ev{Kind: "write", P: p, Val: g.nextVal()})
					g.shape["write_after_last_use"]++
				}
				if g.safe(p, "read") {
					g.emit(c07Ev{Kind: "read", P: p})
					g.shape["read_after_last_use"]++
				}
			}
		case 3, 4: // an access that is safe under the live loans
			kind := rapid.SampledFrom([]string{"read", "write", "call_mut", "call_shared"}).Draw(g.t, "access")
			mk := map[string]string{"read": "read", "write": "write", "call_mut": "mut_borrow", "call_shared": "shared_borrow"}[kind]
			p, ok := g.pick(func(p c07Place) bool {
				return g.safe(p, mk) && (kind == "read" || kind == "write" || c07Scalar(p))
			}, "access_place")
			if !ok {
				continue
			}
			g.emit(c07Ev{Kind: kind, P: p, Val: g.nextVal()})
			if len(g.live) > 0 {
				g.shape["disjoint_access_under_loan"]++
				for _, l := range g.live {
					if l.p.root == p.root {
						g.shape["disjoint_field_of_borrowed_struct"]++
					}
					if !l.mut && c07Overlap(p, l.p) {
						g.shape["read_under_shared_loan"]++
					}
				}
			}
		case 5: // use of a live reference in the middle of its episode
			if len(g.live) == 0 {
				continue
			}
			l := g.live[rapid.IntRange(0, len(g.live)-1).Draw(g.t, "which")]
			if l.mut && rapid.Bool().Draw(g.t, "mid_write") {
				g.emit(c07Ev{Kind: "use_write", Ref: l.ref, Val: g.nextVal()})
			} else {
				g.emit(c07Ev{Kind: "use_read", Ref: l.ref})
			}
		case 6: // two mutable borrows of disjoint places in one call
			p1, ok1 := g.pick(func(p c07Place) bool { return c07Scalar(p) && g.safe(p, "mut_borrow") }, "two1")
			if !ok1 {
				continue
			}
			p2, ok2 := g.pick(func(p c07Place) bool {
				return c07Scalar(p) && g.safe(p, "mut_borrow") && !c07Overlap(p, p1) && !c07SiblingElems(p, p1)
			}, "two2")
			if !ok2 {
				continue
			}
			g.emit(c07Ev{Kind: "call_two", P: p1, P2: p2})
			g.shape["call_two_disjoint"]++
		case 7: // nested block (references declared inside end with it)
			if depth == 0 {
				continue
			}
			g.emit(c07Ev{Kind: "open"})
			g.body(rapid.IntRange(1, 3).Draw(g.t, "blocklen"), depth-1)
			g.emit(c07Ev{Kind: "close"})
			g.shape["block"]++
		case 8: // conditional region
			if depth == 0 {
				continue
			}
			g.emit(c07Ev{Kind: "if_open"})
			g.body(rapid.IntRange(1, 3).Draw(g.t, "iflen"), depth-1)
			g.emit(c07Ev{Kind: "close"})
			g.shape["if"]++
		case 9: // inject a conflict against a live loan right here
			if g.inject && len(g.live) > 0 {
				g.conflictWith(g.live[rapid.IntRange(0, len(g.live)-1).Draw(g.t, "victim")])
			}
		}
	}
}

// ---- rendering to the model AST

func c07Render(evs []c07Ev, skipInjected bool) *fer.Program {
	p := &fer.Program{Types: []*fer.Type{c07T, c07S}, Features: map[string]int{}}
	mref := &fer.Type{K: fer.KRef, Elem: c07I32, Mut: true}
	sref := &fer.Type{K: fer.KRef, Elem: c07I32}
	dm := func(n string, t *fer.Type) fer.Expr { return &fer.Deref{T: c07I32, X: &fer.Var{T: t, Name: n}} }
	p.Funcs = append(p.Funcs,
		&fer.Func{Name: "bump", Params: []fer.Param{{Name: "r", T: mref}}, Body: []fer.Stmt{
			&fer.Let{Name: "c", T: c07I32, Init: dm("r", mref)},
			&fer.Assign{LHS: dm("r", mref), Op: "=", RHS: &fer.Bin{T: c07I32, Op: "+", L: &fer.Var{T: c07I32, Name: "c"}, R: &fer.Lit{T: c07I32, I: big.NewInt(100)}}}}},
		&fer.Func{Name: "peek", Ret: c07I32, Params: []fer.Param{{Name: "r", T: sref}}, Body: []fer.Stmt{
			&fer.Let{Name: "c", T: c07I32, Init: dm("r", sref)},
			&fer.Return{X: &fer.Bin{T: c07I32, Op: "+", L: &fer.Var{T: c07I32, Name: "c"}, R: &fer.Lit{T: c07I32, I: big.NewInt(1000)}}}}},
		&fer.Func{Name: "both", Params: []fer.Param{{Name: "a", T: mref}, {Name: "b", T: mref}}, Body: []fer.Stmt{
			&fer.Let{Name: "c", T: c07I32, Init: dm("b", mref)},
			&fer.Let{Name: "d", T: c07I32, Init: dm("a", mref)},
			&fer.Assign{LHS: dm("a", mref), Op: "=", RHS: &fer.Bin{T: c07I32, Op: "+", L: &fer.Var{T: c07I32, Name: "c"}, R: &fer.Lit{T: c07I32, I: big.NewInt(1)}}},
			&fer.Assign{LHS: dm("b", mref), Op: "=", RHS: &fer.Bin{T: c07I32, Op: "*", L: &fer.Var{T: c07I32, Name: "d"}, R: &fer.Lit{T: c07I32, I: big.NewInt(2)}}}}},
	)
	lit := func(v int64) fer.Expr { return &fer.Lit{T: c07I32, I: big.NewInt(v)} }
	tl := func(a, b int64) *fer.StructLit { return &fer.StructLit{T: c07T, Fields: []fer.Expr{lit(a), lit(b)}} }
	sl := func(a int64) *fer.StructLit {
		return &fer.StructLit{T: c07S, Fields: []fer.Expr{lit(a), lit(a + 1), tl(a+2, a+3)}}
	}
	valueOf := func(t *fer.Type, v int64) fer.Expr {
		switch {
		case t == c07S:
			return sl(v)
		case t == c07T:
			return tl(v, v+1)
		case t.K == fer.KFixed:
			return &fer.ArrLit{T: c07Arr, Elems: []fer.Expr{lit(v), lit(v + 1), lit(v + 2)}}
		}
		return lit(v)
	}
	// leaves of a value of type t reached from base expression e (for printing)
	var leaves func(e fer.Expr, t *fer.Type) []fer.Expr
	leaves = func(e fer.Expr, t *fer.Type) []fer.Expr {
		switch {
		case t.K == fer.KStruct:
			var out []fer.Expr
			for _, f := range t.Fields {
				out = append(out, leaves(&fer.FieldX{T: f.T, X: e, Name: f.Name}, f.T)...)
			}
			return out
		case t.K == fer.KFixed:
			var out []fer.Expr
			for i := 0; i < t.Len; i++ {
				out = append(out, &fer.Index{T: t.Elem, X: e, I: lit(int64(i))})
			}
			return out
		}
		return []fer.Expr{e}
	}
	refT := map[string]*fer.Type{}
	ncopy := 0
	var stack [][]fer.Stmt
	cur := []fer.Stmt{
		&fer.Let{Name: "x", T: c07I32, Init: lit(1)},
		&fer.Let{Name: "y", T: c07I32, Init: lit(2)},
		&fer.Let{Name: "s", T: c07S, Init: sl(3)},
		&fer.Let{Name: "t", T: c07S, Init: sl(7)},
		&fer.Let{Name: "fa", T: c07Arr, Init: valueOf(c07Arr, 20)},
		&fer.Let{Name: "flag", T: c07I32, Init: lit(1)},
	}
	var kinds []string
	for _, e := range evs {
		if skipInjected && e.Injected {
			continue
		}
		switch e.Kind {
		case "borrow":
			rt := &fer.Type{K: fer.KRef, Elem: e.P.typ(), Mut: e.Mut}
			refT[e.Ref] = rt
			if e.From != "" {
				cur = append(cur, &fer.Let{Name: e.Ref, T: rt, Init: &fer.Var{T: rt, Name: e.From}})
			} else {
				cur = append(cur, &fer.Let{Name: e.Ref, T: rt, Init: &fer.Borrow{T: rt, X: e.P.expr()}})
			}
		case "use_read":
			rt := refT[e.Ref]
			rv := &fer.Var{T: rt, Name: e.Ref}
			if rt.Elem.K == fer.KInt {
				cur = append(cur, &fer.Print{Args: []fer.Expr{&fer.Deref{T: rt.Elem, X: rv}}})
			} else {
				cur = append(cur, &fer.Print{Args: leaves(rv, rt.Elem)[:1]})
			}
		case "use_write":
			rt := refT[e.Ref]
			rv := &fer.Var{T: rt, Name: e.Ref}
			if rt.Elem.K == fer.KInt {
				cur = append(cur, &fer.Assign{LHS: &fer.Deref{T: rt.Elem, X: rv}, Op: "=", RHS: lit(e.Val)})
			} else {
				ls := leaves(rv, rt.Elem)
				cur = append(cur, &fer.Assign{LHS: ls[len(ls)-1], Op: "=", RHS: lit(e.Val)})
			}
		case "read":
			t := e.P.typ()
			if t.K == fer.KInt {
				cur = append(cur, &fer.Print{Args: []fer.Expr{e.P.expr()}})
			} else {
				ncopy++
				cn := fmt.Sprintf("c%d", ncopy)
				cur = append(cur, &fer.Let{Name: cn, T: t, Init: e.P.expr()}, &fer.Print{Args: leaves(&fer.Var{T: t, Name: cn}, t)})
			}
		case "write":
			cur = append(cur, &fer.Assign{LHS: e.P.expr(), Op: "=", RHS: valueOf(e.P.typ(), e.Val)})
		case "call_mut":
			cur = append(cur, &fer.ExprStmt{X: &fer.Call{T: fer.TVoid, Fn: "bump", Args: []fer.Expr{&fer.Borrow{T: mref, X: e.P.expr()}}}})
		case "call_shared":
			cur = append(cur, &fer.Print{Args: []fer.Expr{&fer.Call{T: c07I32, Fn: "peek", Args: []fer.Expr{&fer.Borrow{T: sref, X: e.P.expr()}}}}})
		case "call_two":
			cur = append(cur, &fer.ExprStmt{X: &fer.Call{T: fer.TVoid, Fn: "both", Args: []fer.Expr{&fer.Borrow{T: mref, X: e.P.expr()}, &fer.Borrow{T: mref, X: e.P2.expr()}}}})
		case "open", "if_open":
			stack = append(stack, cur)
			kinds = append(kinds, e.Kind)
			cur = nil
		case "close":
			inner := cur
			if inner == nil {
				inner = []fer.Stmt{}
			}
			cur = stack[len(stack)-1]
			stack = stack[:len(stack)-1]
			k := kinds[len(kinds)-1]
			kinds = kinds[:len(kinds)-1]
			if k == "open" {
				cur = append(cur, &fer.Block{Body: inner})
			} else {
				cur = append(cur, &fer.If{Cond: &fer.Bin{T: fer.TBool, Op: ">", L: &fer.Var{T: c07I32, Name: "flag"}, R: lit(0)}, Then: inner})
			}
		}
	}
	// final state of every place
	for _, r := range []string{"x", "y", "s", "t", "fa"} {
		t := c07RootT[r]
		cur = append(cur, &fer.Print{Args: leaves(&fer.Var{T: t, Name: r}, t)})
	}
	p.Funcs = append(p.Funcs, &fer.Func{Name: "main", Body: cur})
	return p
}

// ---- the return family

type c07Ret struct {
	name   string
	reject bool
	decl   string
	call   string
}

var c07Rets = []c07Ret{
	{"local_scalar", true, "fn f(k: i32) -> &i32 {\n    let v: i32 = k + 1;\n    return &v;\n}", "let r: &i32 = f(1);\n    io::Println(r);"},
	{"local_scalar_mut", true, "fn f(k: i32) -> &'i32 {\n    let v: i32 = k + 1;\n    return &'v;\n}", "let r: &'i32 = f(1);\n    io::Println(r);"},
	{"local_via_ref_variable", true, "fn f(k: i32) -> &i32 {\n    let v: i32 = k + 1;\n    let q: &i32 = &v;\n    return q;\n}", "let r: &i32 = f(1);\n    io::Println(r);"},
	{"local_struct_field", true, "fn f(k: i32) -> &i32 {\n    let v: S = {.A = k, .B = 2, .In = {.C = 3, .D = 4}};\n    return &v.In.C;\n}", "let r: &i32 = f(1);\n    io::Println(r);"},
	{"local_struct_whole", true, "fn f(k: i32) -> &S {\n    let v: S = {.A = k, .B = 2, .In = {.C = 3, .D = 4}};\n    return &v;\n}", "let r: &S = f(1);\n    io::Println(r.A);"},
	{"local_in_branch", true, "fn f(k: i32, p: &i32) -> &i32 {\n    if k > 0 {\n        let v: i32 = k;\n        return &v;\n    }\n    return p;\n}", "let z: i32 = 5;\n    let r: &i32 = f(1, &z);\n    io::Println(r);"},
	{"local_in_loop", true, "fn f(k: i32, p: &i32) -> &i32 {\n    let n: i32 = 0;\n    while n < k {\n        n = n + 1;\n        if n == 2 { return &n; }\n    }\n    return p;\n}", "let z: i32 = 5;\n    let r: &i32 = f(1, &z);\n    io::Println(r);"},
	{"local_array_element", true, "fn f(k: i32) -> &i32 {\n    let a: [3]i32 = [k, 2, 3];\n    return &a[1];\n}", "let r: &i32 = f(1);\n    io::Println(r);"},
	{"local_from_method", true, "fn (s: &S) f() -> &i32 {\n    let v: i32 = s.A;\n    return &v;\n}", "let w: S = {.A = 1, .B = 2, .In = {.C = 3, .D = 4}};\n    let r: &i32 = w.f();\n    io::Println(r);"},
	{"uninitialised_local_scalar", true, "fn f(k: i32) -> &i32 {\n    let v: i32;\n    v = k + 1;\n    return &v;\n}", "let r: &i32 = f(1);\n    io::Println(r);"},
	{"uninitialised_local_struct_field", true, "fn f(k: i32) -> &i32 {\n    let v: S;\n    v = {.A = k, .B = 2, .In = {.C = 3, .D = 4}};\n    return &v.B;\n}", "let r: &i32 = f(1);\n    io::Println(r);"},
	{"uninitialised_local_via_ref_variable", true, "fn f(k: i32) -> &i32 {\n    let v: i32;\n    v = k;\n    let q: &i32 = &v;\n    return q;\n}", "let r: &i32 = f(1);\n    io::Println(r);"},
	{"const_local", true, "fn f(k: i32) -> &i32 {\n    const v: i32 = 41;\n    return &v;\n}", "let r: &i32 = f(1);\n    io::Println(r);"},
	{"inferred_local", true, "fn f(k: i32) -> &i32 {\n    let v := k + 1;\n    return &v;\n}", "let r: &i32 = f(1);\n    io::Println(r);"},
	{"local_in_closure", true, "fn f(k: i32) -> i32 {\n    let g := fn(n: i32) -> &i32 {\n        let v: i32 = n;\n        return &v;\n    };\n    return k;\n}", "io::Println(f(1));"},
	{"param_ref", false, "fn f(p: &i32) -> &i32 {\n    return p;\n}", "let z: i32 = 5;\n    let r: &i32 = f(&z);\n    io::Println(r);"},
	{"param_ref_field", false, "fn f(p: &S) -> &i32 {\n    return &p.In.D;\n}", "let w: S = {.A = 1, .B = 2, .In = {.C = 3, .D = 4}};\n    let r: &i32 = f(&w);\n    io::Println(r);"},
	{"param_mut_ref_field", false, "fn f(p: &'S) -> &'i32 {\n    return &'p.B;\n}", "let w: S = {.A = 1, .B = 2, .In = {.C = 3, .D = 4}};\n    let r: &'i32 = f(&'w);\n    r = 9;\n    io::Println(w.B);"},
	{"receiver_field", false, "fn (s: &S) f() -> &i32 {\n    return &s.A;\n}", "let w: S = {.A = 1, .B = 2, .In = {.C = 3, .D = 4}};\n    let r: &i32 = w.f();\n    io::Println(r);"},
	{"param_ref_chosen_in_branch", false, "fn f(k: i32, p: &i32, q: &i32) -> &i32 {\n    if k > 0 { return p; }\n    return q;\n}", "let z: i32 = 5;\n    let u: i32 = 6;\n    let r: &i32 = f(1, &z, &u);\n    io::Println(r);"},
}

var c07RetExpect = map[string][]string{"param_ref": {"5"}, "param_ref_field": {"4"}, "param_mut_ref_field": {"9"}, "receiver_field": {"1"}, "param_ref_chosen_in_branch": {"5"}}

func c07RetProgram(r c07Ret) string {
	return "import \"std/io\";\n\ntype T struct { .C: i32, .D: i32 };\ntype S struct { .A: i32, .B: i32, .In: T };\n\n" + r.decl + "\n\nfn main() {\n    " + r.call + "\n}\n"
}

func c07GenCase(t *rapid.T, env *core.Env) any {
	if rapid.IntRange(0, 9).Draw(t, "family") == 0 {
		r := c07Rets[rapid.IntRange(0, len(c07Rets)-1).Draw(t, "ret")]
		c := &c07Case{Src: c07RetProgram(r), Family: "return", Shape: r.name, Label: "accept", Term: "ok", Expect: c07RetExpect[r.name]}
		if r.reject {
			c.Label = "reject"
			c.Conflict = "returns a reference to a local (" + r.name + ")"
		}
		return c
	}
	g := &c07Gen{t: t, shape: map[string]int{}}
	g.inject = rapid.Bool().Draw(t, "want_conflict")
	want := g.inject
	g.body(rapid.IntRange(3, 8).Draw(t, "len"), 2)
	c := &c07Case{Family: "loans"}
	var keys []string
	for k := range g.shape {
		keys = append(keys, k)
	}
	c.Shape = strings.Join(sortedStrings(keys), ",")
	injected := want && !g.inject
	// independent labelling
	var safeEvs []c07Ev
	for _, e := range g.evs {
		if !e.Injected {
			safeEvs = append(safeEvs, e)
		}
	}
	if cf := c07Model(safeEvs); len(cf) > 0 {
		c.Discard = "generator/model disagreement: the conflict-free part has a conflict: " + cf[0]
		return c
	}
	twin := c07Render(g.evs, true)
	out := fer.Run(twin)
	if out.Err != "" {
		c.Discard = "model: " + out.Err
		return c
	}
	c.Expect, c.Term = out.Lines, out.Term
	if !injected {
		c.Label = "accept"
		c.Src = twin.Source()
		return c
	}
	cf := c07Model(g.evs)
	if len(cf) == 0 {
		c.Discard = "generator/model disagreement: the injected access does not conflict"
		return c
	}
	c.Label = "reject"
	c.Conflict = cf[0]
	c.Src = c07Render(g.evs, false).Source()
	c.Twin = twin.Source()
	return c
}

func sortedStrings(s []string) []string {
	for i := 1; i < len(s); i++ {
		for j := i; j > 0 && s[j] < s[j-1]; j-- {
			s[j], s[j-1] = s[j-1], s[j]
		}
	}
	return s
}

func c07Check(env *core.Env, ci any) (res core.Result) {
	c := ci.(*c07Case)
	if c.Discard != "" {
		res.Discard = c.Discard
		return
	}
	res.Key = c.Src
	res.Labels = append(res.Labels, "family:"+c.Family, "label:"+c.Label)
	for _, s := range strings.Split(c.Shape, ",") {
		if s != "" {
			res.Labels = append(res.Labels, "shape:"+s)
		}
	}
	accepted := func(src string) (core.Result, bool) {
		pc := &progCase{Src: src, Expect: c.Expect, Term: c.Term, Stats: map[string]int{"steps": 100, "loop_iters": 1}}
		r := runNativeDiff(env, pc, "C07")
		return r, r.Violation == ""
	}
	if c.Label == "accept" {
		if c.Family == "return" && c.Expect == nil {
			res.Discard = "no expectation"
			return
		}
		r, ok := accepted(c.Src)
		if !ok {
			switch {
			case strings.HasPrefix(r.VKey, "rejected"):
				res.Violation = "a program that respects the borrowing rules (disjoint places, reads under shared loans, accesses after the last use) is rejected\n" + r.Violation
				res.VKey = "conflict_free_rejected"
				if c.Family == "return" {
					res.VKey = "return_of_parameter_reference_rejected:" + c.Shape
				}
			case r.VKey == "wrong_output" || strings.HasPrefix(r.VKey, "termination"):
				res.Violation = "writes through references / to referents are not seen consistently\n" + r.Violation
				res.VKey = "wrong_output"
			default:
				res.Discard = "back-end failure (C01/C13's matter): " + r.VKey
			}
			return
		}
		res.NonTrivial = c.Family == "return" || strings.Contains(c.Shape, "episode")
		if res.NonTrivial {
			res.Sample = fmt.Sprintf("%q", c.Src[:min(len(c.Src), 1500)])
		}
		return
	}
	// must reject
	tc := tcOf(env)
	if c.Twin != "" {
		r, ok := accepted(c.Twin)
		if !ok {
			if strings.HasPrefix(r.VKey, "rejected") {
				res.Violation = "a program that respects the borrowing rules is rejected (twin of a conflicting program)\n" + r.Violation
				res.VKey = "conflict_free_rejected"
				return
			}
			if r.VKey == "wrong_output" || strings.HasPrefix(r.VKey, "termination") {
				res.Violation = "writes through references / to referents are not seen consistently\n" + r.Violation
				res.VKey = "wrong_output"
				return
			}
			res.Discard = "back-end failure on the twin (C01/C13's matter): " + r.VKey
			return
		}
	}
	dir := env.NextDir()
	sut.WriteProject(dir, map[string]string{"main.fer": c.Src})
	rv := tc.Compile(dir, sut.CompileOpts{TypeOnly: true})
	if rv.TimedOut || rv.Crash != "" {
		res.Discard = "compiler crash/hang (C13's matter)"
		return
	}
	res.NonTrivial = true
	if rv.Exit == 0 && len(rv.Errors()) == 0 {
		res.Violation = fmt.Sprintf("a program that breaks the borrowing rules is accepted: %s\n--- program ---\n%s", c.Conflict, c.Src)
		res.VKey = "conflict_accepted"
		if c.Family == "return" {
			res.VKey = "return_of_local_reference_accepted:" + c.Shape
		} else {
			for _, s := range strings.Split(c.Shape, ",") {
				if strings.HasPrefix(s, "conflict:") {
					res.VKey = "conflict_accepted:" + strings.TrimPrefix(s, "conflict:")
				}
			}
		}
		return
	}
	res.Sample = fmt.Sprintf("%q", "[rejected: "+c.Conflict+"] "+c.Src[:min(len(c.Src), 1200)])
	return
}

func c07Exhaustive(env *core.Env) []any {
	var out []any
	for _, r := range c07Rets {
		c := &c07Case{Src: c07RetProgram(r), Family: "return", Shape: r.name, Label: "accept", Term: "ok", Expect: c07RetExpect[r.name]}
		if r.reject {
			c.Label = "reject"
			c.Conflict = "returns a reference to a local (" + r.name + ")"
		}
		out = append(out, c)
	}
	return out
}

func init() {
	core.Register(&core.Prop{
		ID: "C07",
		Rule: "event-sequence generator (rapid): structured sequences of borrow episodes over the places x, y, s, s.A, s.B, s.In, s.In.C, s.In.D, t, t.A, t.In, t.In.C, fa, fa[1] (create &T or &'T - or copy a live shared reference into a second reference variable -, do things while the loan is live, use the reference a last time - read or write through -, touch the place afterwards), nested up to depth 3 inside blocks and `if` regions; while loans are live only non-conflicting statements are generated (disjoint fields, reads and shared borrows under shared loans, uses of live references, two &' arguments of disjoint places in one call); in half of the cases exactly one conflicting access is injected against a live loan (read / write / &' or & borrow by let or by call, on the place itself or an overlapping prefix / extension; built on purpose: a read or shared borrow of a common prefix while an older mutable loan and a newer shared loan hold disjoint parts of it). An independent loan model (textual last use, prefix overlap) labels the finished list: conflict-free => must compile, run and print what the reference interpreter prints (final state of all places, values seen through references); with the injected conflict => `ferret -t` must report an error and the conflict-free twin must be accepted. Second family (exhaustive, 20 shapes): functions returning a reference to a local (scalar, via reference variable, struct field, whole struct, array element, in a branch, in a loop, from a method, declared without initialiser, const, inferred, inside a function literal) must be rejected, returning a parameter / receiver (field) reference must be accepted and work. non-trivial = at least one episode (accept) or a confirmed twin (reject); distinct = program text",
		Gen:        c07GenCase,
		New:        func() any { return &c07Case{} },
		Check:      c07Check,
		Exhaustive: c07Exhaustive,
		Assumptions: []string{
			"the model is deliberately coarse: sibling elements of one array, accesses in the same statement as a use of the reference, loans flowing through calls that return references and loops are not generated (the statement does not settle them)",
			"liveness is the textual last use in structured straight-line code (blocks and if regions), which coincides with any flow-sensitive definition there",
		},
	})
}
