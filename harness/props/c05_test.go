package props

// C05 — a non-void function always returns a value from a return statement.
// Dynamic witness oracle: the reference interpreter executes every generated call;
// if it reaches the end of a non-void body without a return, the program must have
// been rejected at compile time.  Accepted programs whose calls all return must
// print the interpreter's values.

import (
	"fmt"
	"strings"

	"compiler/verifharness/core"
	"compiler/verifharness/fer"
	"compiler/verifharness/sut"

	"pgregory.net/rapid"
)

type c05Case struct {
	progCase
	FellOff string `json:"fell_off"`
}

func c05Gen(t *rapid.T, env *core.Env) any {
	p := fer.GenerateReturns(t, env.Use)
	out := fer.Run(p)
	c := &c05Case{progCase: progCase{Src: p.Source(), Expect: out.Lines, Term: out.Term, Features: p.Features,
		Stats: map[string]int{"steps": out.Steps, "calls": out.Calls, "loop_iters": out.LoopIters}}, FellOff: out.FellOff}
	if out.Err != "" && out.FellOff == "" {
		c.Discard = "model: " + out.Err
	}
	return c
}

func c05Check(env *core.Env, ci any) (res core.Result) {
	c := ci.(*c05Case)
	if c.Discard != "" {
		res.Discard = c.Discard
		return
	}
	res.Key = c.Src
	nested := strings.Count(c.Src, "match ") + strings.Count(c.Src, "if ") + strings.Count(c.Src, "while ") + strings.Count(c.Src, "for ")
	if c.FellOff != "" {
		// a call reaches the end of a non-void body: the program must not be accepted
		tc := tcOf(env)
		dir := env.NextDir()
		sut.WriteProject(dir, c.Files())
		r := tc.Compile(dir, sut.CompileOpts{TypeOnly: true})
		res.Labels = append(res.Labels, "witnessed_fall_off")
		res.NonTrivial = nested >= 2
		if r.TimedOut || r.Crash != "" {
			res.Discard = "compiler crash/timeout (C13's matter)"
			return
		}
		if r.Exit == 0 && len(r.Errors()) == 0 {
			key := "fall_off_accepted"
			switch {
			case c.FellOff == "function literal":
				key = "fall_off_accepted:function_literal"
			case c.Features["returns.match_enum_no_default"] > 0 || c.Features["returns.match_int_no_default"] > 0:
				key = "fall_off_accepted:with_match_without_default"
			}
			res.Violation = fmt.Sprintf("the call sequence of main reaches the end of the non-void body of %s without a return, yet the compiler accepts the program\n--- program ---\n%s", c.FellOff, c.Src)
			res.VKey = key
			return
		}
		res.Labels = append(res.Labels, "rejected_as_required")
		return
	}
	r := runNativeDiff(env, &c.progCase, "C05")
	r.Key = c.Src
	if strings.HasPrefix(r.VKey, "rejected") {
		// rejections are never failures here (C01 owns "not rejected")
		r.Violation, r.VKey = "", ""
		r.Discard = "rejected (conservative return analysis or another rule)"
		return r
	}
	if r.Violation != "" && r.VKey != "wrong_output" && !strings.HasPrefix(r.VKey, "termination") {
		// compiler crashes / back-end failures on accepted programs belong to C01 and C13
		r.Discard = "back-end failure (C01/C13's matter): " + r.VKey
		r.Violation, r.VKey = "", ""
		return r
	}
	r.NonTrivial = r.Violation == "" && nested >= 2
	if r.NonTrivial {
		r.Sample = fmt.Sprintf("%q", c.Src[:min(len(c.Src), 1400)])
	}
	return r
}

func init() {
	core.Register(&core.Prop{
		ID: "C05",
		Rule: "rapid-generated non-void functions, &-receiver methods and function literals - standing directly in main, inside one or two enclosing function literals, inside a function, a method or a loop body - (1-3 per program) whose bodies nest if / else-if / else, int match and enum match with and without default arm, fuelled while loops, `while true { ...; break; }`, loops guarded by a mutable flag that is re-armed after the loop, for-range loops (also with a body that always returns) with break/continue, prints and early returns (depth <= 3); a third of the bodies that do not syntactically return on all paths are left without a final return. main calls each on 4-9 generated argument tuples (two ints in [-3,6] and an enum value) that drive the branches. Oracle: the reference interpreter executes the calls; if some call reaches the end of a non-void body, the compiler must reject the program (`ferret -t`); otherwise an accepted program must print exactly the interpreter's return values. Rejections of other programs are never failures. non-trivial = >= 2 control constructs; distinct = program text",
		Gen:   c05Gen,
		New:   func() any { return &c05Case{} },
		Check: c05Check,
		Assumptions: []string{
			"only fall-off paths that are actually taken by one of the generated calls are witnessed (sound, not complete)",
		},
	})
}
