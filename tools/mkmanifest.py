#!/usr/bin/env python3
"""Regenerates /verif/MANIFEST.json from the table below (run after adding a check)."""
import json, os, sys

V = os.path.dirname(os.path.dirname(os.path.abspath(__file__)))

# id -> (technique, level text, level note, design ref)
CHECKS = {}

def add(id, technique, text, note, ref):
    CHECKS[id] = (technique, text, note, ref)

add("C20", "property-based round trip + metamorphic re-layout + byte fuzzing (rapid; native go fuzz in thorough)",
    "Generated configurations over the writer's 7 sections are written with WriteTOMLFile, parsed back and compared including dynamic types and float bits; the written text is then re-laid-out (comment lines, blank lines, CRLF, blanks around lines and '=') and must parse to the same data; arbitrary byte files must not panic. Exploration: many thousands of generated cases per run, nothing is proved.",
    "Trusts Go's strconv and the harness comparison. Domain restricted to what the property states (no quotes/backslashes/line breaks in strings, not 'true'/'false', finite floats); an empty 'default' table and single values above bufio.Scanner's 64 KiB line limit are not generated.",
    "DESIGN.md §4 C20")

def main():
    props = [json.loads(l) for l in open(os.path.join(V, "properties.jsonl"))]
    checks, na = [], []
    reasons = {}
    rf = os.path.join(V, "tools", "not_applicable.json")
    if os.path.exists(rf):
        reasons = json.load(open(rf))
    for p in props:
        id = p["id"]
        if id in CHECKS:
            tech, text, note, ref = CHECKS[id]
            checks.append({
                "property_id": id,
                "quick_cmd": f"./verif.sh {id} quick",
                "thorough_cmd": f"./verif.sh {id} thorough",
                "evidence_file": f"/verif/evidence/{id}.json",
                "replay_cmd_template": "./verif.sh replay {path}",
                "engine": "rapid-harness",
                "level_claimed": {"category": "exploration", "text": text, "design_ref": ref},
                "level_note": note,
                "technique": tech,
            })
        else:
            na.append({"property_id": id, "reason": reasons.get(id, "check not built yet in this round (planned in DESIGN.md §4); not claimed")})
    m = {
        "version": 1,
        "setup_cmd": "./verif.sh setup",
        "hooks": {
            "guard": "verif",
            "enable": "go build -tags verif (all checks build /repo with the tag; the hook only acts when FERRET_VERIF_SCHED is set)",
            "baseline_off_cmd": "cd /repo && go test -mod=mod -vet=off -count=1 -timeout 25m ./...",
            "source_commits": json.load(open(os.path.join(V, "tools", "hook_commits.json"))) if os.path.exists(os.path.join(V, "tools", "hook_commits.json")) else [],
            "add_only": True,
        },
        "engines": [
            {"name": "rapid-harness", "path": "harness/", "serves_properties": sorted(CHECKS), "kind_free_text": "Go module (pgregory.net/rapid v1.3.0) sharded over processes by verif.sh; generators + explicit oracles per property; saved cases re-decided without rapid"},
        ],
        "checks": checks,
        "not_applicable": na,
        "notes": "All commands run from /verif, rebuild the compiler, runtime and harness from /repo's working tree into a scratch dir under /dev/shm and remove it on exit. VERIF_SEED selects the rapid seeds. Violations found at run time are saved under /verif/found/<id>/ (git-ignored); committed regression cases live in /verif/replays/<id>/; known_findings.jsonl lists recorded/fixed defects.",
    }
    json.dump(m, open(os.path.join(V, "MANIFEST.json"), "w"), indent=1)
    print("claimed:", sorted(CHECKS), "not claimed:", [x["property_id"] for x in na])

if __name__ == "__main__":
    main()
