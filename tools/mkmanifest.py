#!/usr/bin/env python3
"""Regenerates /verif/MANIFEST.json from the table below (run after adding a check)."""
import json, os, sys

V = os.path.dirname(os.path.dirname(os.path.abspath(__file__)))

# id -> (technique, level text, level note, design ref)
CHECKS = {}

def add(id, technique, text, note, ref):
    CHECKS[id] = (technique, text, note, ref)

add("C20", "property-based round trip + metamorphic re-layout + byte fuzzing (rapid; native go fuzz in thorough)",
    "Generated configurations over the writer's 7 sections are written with WriteTOMLFile, parsed back and compared including dynamic types and float bits; the written text is then re-laid-out (comment lines, inline comments behind values, blank lines, CRLF, blanks around lines and '=') and must parse to the same data; arbitrary byte files must not panic. Exploration: many thousands of generated cases per run, nothing is proved.",
    "Trusts Go's strconv and the harness comparison. Domain restricted to what the property states (no quotes/backslashes/line breaks in strings, not 'true'/'false', finite floats); an empty 'default' table and single values above bufio.Scanner's 64 KiB line limit are not generated.",
    "DESIGN.md §4 C20")

add("C11", "exhaustive enumeration of (S,T,position) + rapid over source forms/positions; oracle = representability arithmetic",
    "All 17x17 ordered pairs of numeric types x 6 assignment-like positions are enumerated on every run through the real CLI (`ferret -t`), plus rapid-generated combinations of 16 positions x 13 source-expression forms; a conversion counts as accepted only if a whole compilation containing it succeeds. Each accepted implicit conversion is checked against representability computed from integer ranges and float significand/exponent widths. Exploration; exhaustive over the pair x basic-position space, sampled over the rest.",
    "Trusts the float format table stated in the evidence assumptions (f32 24, f64 53, f128 113, f256 237 significand bits) and the diagnostic line attribution of the CLI. Rejecting a lossless conversion is allowed by the property.",
    "DESIGN.md §4 C11")
add("C16", "differential property-based testing against math/big (rapid) over an ASan/UBSan co-process; libFuzzer in thorough",
    "Generated operations on i128/u128/i256/u256 (by-value and *_ptr entry points; limb-pattern, boundary and related operands) are executed by the real runtime/core/bigint.c built with ASan+UBSan in a 64-bit-limb and a 32-bit-limb configuration and compared with math/big reduced mod 2^N. Exploration: hundreds of thousands of distinct non-trivial operations per quick run.",
    "Trusts math/big and the hex marshalling in cdrv/bigint_drv.c. Division by zero, negative exponents, shift counts outside [0,N) and '-' text for unsigned types are treated as unspecified and skipped.",
    "DESIGN.md §4 C16")
add("C17", "model-based (stateful) property testing: generated operation histories vs Go map/slice model, ASan/UBSan co-process",
    "Generated histories of map (i32/i64/str/bytes keys, 5 value sizes, from_pairs with duplicates, set/get/get_optional_out/has/unwrap_or/size/iterate) and dynamic array (append/get/set/resize/len with out-of-range indices) operations run against the real runtime C code built with ASan+UBSan; the abstract-map/list invariant is checked after every step and any sanitizer report is a violation. Exploration.",
    "Trusts the Go model and the marshalling in cdrv/maparr_drv.c. Leaks and allocation-failure paths are out of scope.",
    "DESIGN.md §4 C17")

add("C10", "property-based differential testing against math/big through the real compiler and executables (rapid)",
    "Generated batches of integer literals (12 types x boundary-heavy values up to 300 bits x decimal/hex/octal/binary spellings with separators, case variants and the three negation forms x 5 positions) are type-checked and the set of rejected lines must equal the out-of-range set exactly; the accepted lines are compiled natively, run, and must print their exact value. Exploration.",
    "Trusts math/big and io::Println's decimal printing of the value.",
    "DESIGN.md §4 C10")
add("C15", "exhaustive enumeration of small import graphs + rapid graph/schedule generation; oracle = reachability/cycle analysis and computed value",
    "Every digraph on <=3 modules and generated graphs up to 40 modules (dense random, layered DAGs with back edges, wide fan-outs, chains with chords; plain/aliased/doubly-aliased imports) are compiled under generated schedules (GOMAXPROCS x hook delays at module granularity). Cyclic => circular-import error, no executable, no hang; acyclic => compiles, every reachable module processed once per phase, executable prints the value computed from the graph. Exploration; exhaustive for n<=3.",
    "Schedules are steered only at module granularity (verif hook) and by GOMAXPROCS; a hang is a 25 s timeout re-confirmed through the CLI. The processed-once observation relies on the compiler's own -d trace.",
    "DESIGN.md §4 C15")

add("C13", "generated-input robustness testing (rapid: bytes, token soup, mutated corpus programs, broken multi-file projects) with a faithful-failure oracle; native go fuzz in thorough",
    "Arbitrary bytes, token soup, every .fer file of the repository damaged by syntactic and class-preserving mutations and re-laid-out with tabs/line breaks, and small projects with missing/self/cyclic/malformed imports are compiled for -t, wasm and native. Oracle: no internal crash or hang, exit 0 exactly when no error diagnostic was printed, a failure carries >=1 error located inside an input file, no artifact after failure, artifact after success. Exploration.",
    "Compilations run through a persistent process calling compiler.Compile (process creation is the bottleneck here); every violation is re-confirmed with the real CLI.",
    "DESIGN.md §4 C13")
add("C18", "white-box invariant checking of the compiler's DataLayout over generated type expressions (rapid), both pointer sizes; black-box differential testing of generated store/copy/pass programs against the reference interpreter",
    "(a) Generated type expressions (mixed-width structs, nesting, fixed arrays, optionals, results, references) are laid out by mir.DataLayout for pointer sizes 8 and 4 and must satisfy: aligned, ordered, pairwise disjoint fields inside the object; size multiple of alignment; optional flag byte and result discriminant inside the object and outside the payloads. (b) One case in about sixty is a generated program: structs of 1-5 fields over 8-64 bit integers and bools (nested structs, small arrays as fields), arrays of such structs and small-integer arrays between canary variables are stored element-wise, field-wise and as wholes, copied, updated by value through functions; after every step every leaf of every variable is printed and must equal what the reference interpreter computes. Exploration.",
    "The consumer-side offsets of optionals / results are taken from the emitters as documented. The black-box programs run on the native target only (structs are not supported by the wasm back end); structs inside result types are not supported by the native back end and not generated.",
    "DESIGN.md §4 C18")

add("C14", "metamorphic repetition testing: generated multi-module projects compiled K times by the real CLI under generated GOMAXPROCS/hook schedules; outputs compared byte for byte",
    "Generated projects (2-6 modules, imported by main directly or only through another module, built from templates that stress literal IDs, data emission and multi-diagnostic output, one third with injected errors incl. same-line ties and lexer/parser errors in sibling modules) are compiled 4 (thorough 8) times as fresh processes under different GOMAXPROCS values and module-level schedules imposed through the verif hook; exit status, full compiler output and the generated QBE IL per module / the .wasm binary must be identical. Exploration: schedules and Go map order are sampled, not enumerated.",
    "Go map iteration order can only be resampled; interleavings finer than module granularity are reached only by repetition. Assembler/linker are replaced by /bin/true for the native target (only the IL is compared). Import cycles and a missing module with two importers are part of the generated projects (both were schedule-dependent on the original tree and have been repaired).",
    "DESIGN.md §4 C14")

add("C01", "differential testing of generated programs against a reference interpreter (rapid type-directed program generator, math/big interpreter)",
    "Well-typed core-language programs are generated type-directed (all integer widths, bool, str, nested structs and methods, enums/match, fixed and dynamic arrays, references, closures, results/catch, recursion, loops), compiled by the real compiler to a native executable and run; stdout lines and termination kind must equal those computed by an independent reference interpreter written from the property statements. A rejection of such a program is a violation too. Exploration; shrunk counter-examples are saved with source, expected and observed output.",
    "The reference interpreter (harness/fer) is the trusted definition of the core semantics; constructs the documentation leaves open are never generated (division by zero, MIN/-1, out-of-range casts, aliasing of dynamic arrays). One recorded known finding (a variable captured by a closure that is created in a nested block) is excluded by construction.",
    "DESIGN.md §4 C01")

add("C02", "differential testing of the two back ends on generated programs (rapid program generator; node + shipped runtime.js in worker threads)",
    "Generated programs within the subset both targets accept (plus probing features and a float scenario) are compiled for native and wasm; the executable and the module (instantiated with the shipped JS runtime, fresh per module) must print the same sequence of values and terminate the same way. Float tokens are compared numerically. Exploration.",
    "Cases rejected by either target or whose module does not instantiate are outside the property and counted as discards. Native float printing uses %g-style rounding, hence a relative tolerance of 1e-5.",
    "DESIGN.md §4 C02")

add("C04", "differential testing against a reference interpreter on generated fixed-array indexing programs (rapid)",
    "Generated programs index one fixed array through literals, consts, lets (reassigned before/after/in a branch), arithmetic, loop variables and parameters, and inside function literals through captured variables of every integer width that are reassigned later (also to values 2^31 / 2^32 away or in the all-ones region), for reads, writes and compound writes, with copies in between and canary variables around the array. A compile-time rejection is allowed; an accepted program must print exactly what the reference interpreter (which knows each index value at the moment of execution) prints, and must panic exactly when an index leaves [-N, N). Exploration.",
    "Trusts the reference interpreter. Overwriting unrelated memory is observed only through the dumped array, its copies and two canary variables.",
    "DESIGN.md §4 C04")
add("C08", "model-based testing of generated indexing histories over dynamic arrays and strings against an abstract list (rapid + reference interpreter)",
    "Generated histories (literal construction, appends - also from inside index expressions -, element assignments, reads/writes with constant and opaque indices in [-len-2, len+1], strings) are compiled and run; valid indices for the current length must be accepted and yield the stored element, invalid ones must end in an index-out-of-bounds panic after all earlier lines were delivered; a compile-time rejection is accepted only if some execution indexes out of range. Exploration.",
    "Trusts the reference interpreter's list model.",
    "DESIGN.md §4 C08")

add("C05", "property-based testing with a dynamic-witness oracle: generated control-flow shapes executed by a reference interpreter (rapid)",
    "Generated non-void functions, methods and function literals nest if/else-if/else, int and enum match with and without default, fuelled while, `while true`, for-range, break/continue and early returns; main calls them on generated arguments. The reference interpreter executes the calls: if a call falls off the end of a non-void body the compiler must have rejected the program; an accepted program whose calls all return must print the interpreter's values (so a fall-through compiled to a garbage return is seen on either side). Exploration.",
    "Sound but not complete: only fall-off paths taken by a generated call are witnessed; rejections by the (conservative) return analysis are never failures. Trusts the reference interpreter.",
    "DESIGN.md §4 C05")

add("C19", "metamorphic testing: generated trivia insertion at token gaps of generated / repository / damaged programs (rapid), diagnostic positions recomputed by an independent lexer",
    "Base texts (generated well-typed programs, the repository's .fer files, and damaged versions of both that are rejected by parser or semantic checks) are varied by inserting generated runs of spaces, line breaks (LF, CRLF), tabs and block/line comments (multi-line, non-ASCII, quote/brace content) into a generated subset of token gaps. Base and variant must agree on acceptance (type-check, wasm or native build), on the multiset of diagnostics, on every diagnostic's token (line:column recomputed from the variant text by the harness), and on the produced .wasm bytes or the printed output of both executables. Exploration.",
    "Tokens are the lexemes of the lexical grammar (a '-' glued to a digit is part of the number literal). Lines with a tab followed by another character inside one lexeme are exempt from the column check (documented implementation quirk pinned by position_test.go); comments carrying '@' tags are left alone (doc-comment semantics); repository programs importing anything but std/io are compiled but not executed.",
    "DESIGN.md §4 C19")

add("C09", "metamorphic testing: generated programs vs. typed-AST rewrites R1-R4 at generated sites (rapid), native and wasm",
    "Two generator families - the general well-typed program generator of C01 and a constant-rich family (named consts / never-reassigned lets / reassigned lets with literal and constant-expression initialisers incl. / % unary minus and casts, used as fixed- and dynamic-array indices also negated, range bounds and steps, match scrutinees, constant conditions, loop bounds, 8/16-bit wrap-around) - are rewritten at generated sites by R1 literal -> call, R2 pure subexpression -> fresh const before the statement, R3 never-modified let -> const, R4 statement run -> if true { }. Base and variant must both be accepted and print the same lines with the same termination (native executable or wasm module). Exploration.",
    "Rewrites are applied only where they preserve meaning by construction (syntactic purity / non-modification analysis on the model AST); variants rejected solely by the documented constant-index rule T0028 are discarded; literal conditions and index literals are not rewritten.",
    "DESIGN.md §4 C09")

add("C06", "exhaustive enumeration of the (place kind x path x mutation form x context) product + rapid-generated nested contexts; twin-program oracle",
    "Every combination of 15 immutable place kinds (const scalar/struct/fixed array/array of structs/dynamic array, const in a method, two-variable for index, catch variable, &T parameter of struct/array/scalar/dynamic-array type, &T receiver, local &T), their access paths (ident, paren, field chains, constant and negative indices up to depth 4), 9 mutation forms (=, += -= *=, ++ --, &' borrow, passing &', &'-receiver method call, append) and 10 syntactic contexts (5.5k programs) is type-checked on every run; the random part nests 2-3 contexts around the mutation. The program must be rejected; its control twin (binding made mutable, nothing else changed) must be accepted, otherwise the combination is discarded as not expressible. Exhaustive over the grid, sampled over nestings.",
    "Only the listed forms of mutation are generated; module-level constants are not (they cannot be used in functions today). A wrongly accepted mutation is additionally built and run so that the replay shows the changed value.",
    "DESIGN.md §4 C06")

add("C12", "exhaustive enumeration of the (symbol kind x access site x context x import form) product over generated multi-module projects + rapid-generated project shapes; twin-program oracle",
    "Every combination of symbol kind (function, constant, module variable, struct type, enum type - each as exported/private twins in a provider module), access site (call, read, type named in 12 kinds of type position, enum variant / annotation / match pattern ...), 30 syntactic contexts for expression sites and 3 import forms, plus 11 field-access forms x 8 places (other module, through a reference, same-module function, method of another type, own method through another value, receiver-name shadowing) and the allowed uses (receiver access in own method, struct literals) is type-checked on every run (450 projects); the random part embeds the cases in 3-4 module projects with the consumer as a middle module. Private => rejected; the twin naming the exported twin => accepted; allowed uses => accepted. Exhaustive over the grid.",
    "Methods and private types reached without naming them are outside the statement and not asserted. Sites whose exported twin is rejected (assignment to another module's variable) are discarded as not expressible.",
    "DESIGN.md §4 C12")

add("C03", "property-based testing by single-fault injection into generated well-typed programs (rapid; typed-AST site enumeration), reject-oracle with accepted base as control",
    "A generated well-typed base (accepted by `ferret -t`, checked in every case) gets exactly one violation injected: one of 55 self-contained ill-typed snippets covering the 13 rule classes of the statement, inserted at a generated statement position (function, method, closure body, match arm / default, if / else, while / for / for-in body, catch handler, nested blocks); or one expression at a typed position (argument, struct-literal field, return value, condition, logical / arithmetic operand, initialiser, assignment, array element, catch fallback, append value) replaced by an incompatible value, a float literal or a legal widening cast of itself; or one node damaged (undefined name, argument dropped / added, catch removed, field renamed / dropped / added). The variant must be rejected with an error. Exploration.",
    "Only violations of rule classes named in the property statement are generated. The rejection is not attributed to a particular diagnostic: any error counts (the base differs from the variant only by the injected fault).",
    "DESIGN.md §4 C03")

add("C07", "model-based event-sequence generation (rapid) with an independent loan model as oracle; twin programs; differential run against the reference interpreter",
    "Generated structured sequences of borrow episodes over variables, field paths and an array element (create &T / &'T or copy a shared reference, statements while the loan is live, last use by read or write-through, accesses after the last use; nesting, blocks, if regions, two &' arguments in one call). Only non-conflicting statements are generated while loans are live; in half of the cases exactly one conflicting access is injected. An independent loan model (textual last use, prefix overlap) labels the result: conflict-free => accepted, run, output equals the reference interpreter's (write-through visibility both ways); injected conflict => rejected and the conflict-free twin accepted. 14 return-of-reference shapes are checked exhaustively on every run (locals rejected, parameter / receiver references accepted and working). Exploration.",
    "Deliberately coarse model: sibling elements of one array, accesses in the same statement as a use of the reference, mutable reference copies, loans through calls returning references and loops are not generated, because the statement does not settle them.",
    "DESIGN.md §4 C07")

def main():
    props = [json.loads(l) for l in open(os.path.join(V, "properties.jsonl"))]
    checks, na = [], []
    reasons = {}
    rf = os.path.join(V, "tools", "not_applicable.json")
    if os.path.exists(rf):
        reasons = json.load(open(rf))
    for p in props:
        id = p["id"]
        if id in CHECKS:
            tech, text, note, ref = CHECKS[id]
            checks.append({
                "property_id": id,
                "quick_cmd": f"./verif.sh {id} quick",
                "thorough_cmd": f"./verif.sh {id} thorough",
                "evidence_file": f"/verif/evidence/{id}.json",
                "replay_cmd_template": "./verif.sh replay {path}",
                "engine": "rapid-harness",
                "level_claimed": {"category": "exploration", "text": text, "design_ref": ref},
                "level_note": note,
                "technique": tech,
            })
        else:
            na.append({"property_id": id, "reason": reasons.get(id, "check not built yet in this round (planned in DESIGN.md §4); not claimed")})
    m = {
        "version": 1,
        "setup_cmd": "./verif.sh setup",
        "hooks": {
            "guard": "verif",
            "enable": "go build -tags verif (all checks build /repo with the tag; the hook only acts when FERRET_VERIF_SCHED is set)",
            "baseline_off_cmd": "cd /repo && go test -mod=mod -vet=off -count=1 -timeout 25m ./...",
            "source_commits": json.load(open(os.path.join(V, "tools", "hook_commits.json"))) if os.path.exists(os.path.join(V, "tools", "hook_commits.json")) else [],
            "add_only": True,
        },
        "engines": [
            {"name": "rapid-harness", "path": "harness/", "serves_properties": sorted(CHECKS), "kind_free_text": "Go module (pgregory.net/rapid v1.3.0) sharded over processes by verif.sh; generators + explicit oracles per property; saved cases re-decided without rapid"},
            {"name": "libfuzzer-targets", "path": "cdrv/bigint_fuzz.c cdrv/maparr_fuzz.c fuzz/", "serves_properties": ["C16", "C17"], "kind_free_text": "thorough tier only: clang libFuzzer + ASan/UBSan targets with the oracle (reference implementation / model) inside the target, run by fuzz/run_C16.sh and fuzz/run_C17.sh under a wall-clock budget"},
            {"name": "go-native-fuzz", "path": "harness/props/fuzz_test.go harness/props/inproc_test.go fuzz/run_gofuzz.sh", "serves_properties": ["C13", "C18", "C20"], "kind_free_text": "thorough tier only: go test -fuzz over rapid.MakeFuzz(campaign property); in-process compilation gives coverage feedback from the compiler"},
        ],
        "checks": checks,
        "not_applicable": na,
        "notes": "All commands run from /verif, rebuild the compiler, runtime and harness from /repo's working tree into a scratch dir under /dev/shm and remove it on exit. VERIF_SEED selects the rapid seeds. Violations found at run time are saved under /verif/found/<id>/ (git-ignored); committed regression cases live in /verif/replays/<id>/; known_findings.jsonl lists recorded/fixed defects.",
    }
    json.dump(m, open(os.path.join(V, "MANIFEST.json"), "w"), indent=1)
    print("claimed:", sorted(CHECKS), "not claimed:", [x["property_id"] for x in na])

if __name__ == "__main__":
    main()
