#!/bin/bash
# usage: recheck_par.sh [jobs] [shards] [name-filter]
# Re-applies every kept seeded change to a private clone of /repo (never to /repo itself) and runs
# the property's quick check from a private copy of /verif against that clone; several at a time.
# A change counts as caught when the check exits 1 with a VIOLATION line.  Fewer shards than the
# registered quick command use a subset of its cases (shard k always gets the same cases), so
# "caught" here implies caught by the real command; a miss is re-run with all shards.
jobs="${1:-3}"; shards="${2:-5}"; filter="${3:-}"
base=/dev/shm/rk; rm -rf $base; mkdir -p $base
one() {
  n="$1"; shards="$2"; id=${n%%-*}; d=$base/$n
  mkdir -p $d && git clone -q /repo $d/repo && mkdir $d/verif && ( cd /verif && tar cf - --exclude=.git --exclude=found --exclude=seeded . ) | tar xf - -C $d/verif
  cd $d/repo
  if ! git apply /verif/seeded/$n/patch.diff 2>/dev/null; then
    git apply --3way /verif/seeded/$n/patch.diff >/dev/null 2>&1 || { echo "$n: PATCH DOES NOT APPLY"; rm -rf $d; return; }
    git reset -q
  fi
  s=$(date +%s)
  out=$(cd $d/verif && VERIF_REPO=$d/repo VERIF_SHARDS=$shards ./verif.sh $id quick 2>&1); rc=$?
  e=$(date +%s)
  v=$(echo "$out" | grep -c '^VIOLATION')
  echo "$n: rc=$rc violations=$v shards=$shards $((e-s))s"
  rm -rf $d
}
export -f one; export base
ls /verif/seeded | grep -- "$filter" | xargs -P "$jobs" -I{} bash -c "one {} $shards"
rm -rf $base
