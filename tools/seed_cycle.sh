#!/bin/bash
# usage: seed_cycle.sh <agent ID> <check ID> — rebase worktree to main, confirm the seed, run the check against it
id="$1"; chk="${2:-$1}"
cd /tmp/wt/$id && git checkout -q -- . && git clean -fdq && git checkout -q --detach main 2>/dev/null
cd /verif
conf=$(tools/confirm_seed.sh $id 2>&1 | tail -1)
echo "confirm: $conf"
case "$conf" in *'"demo_fails_with_patch":true,"demo_passes_without_patch":true'*) ;; *) echo "NOT CONFIRMED"; exit 1;; esac
TAIL=${TAIL:-6} tools/try_seed.sh $chk /tmp/wt/$id-out/patch.diff ${3:-quick}
