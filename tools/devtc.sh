#!/bin/bash
# usage: tools/devtc.sh  — (re)builds a probing toolchain at /dev/shm/devtc from /repo's working tree (dev aid only; remove when done)
set -e
export GOFLAGS=-mod=mod GOPROXY=off; unset GOSUMDB
REPO=/repo; TC=/dev/shm/devtc; mkdir -p $TC/bin $TC/libs $TC/obj
qh=$(cat "$REPO"/qbe/*.c "$REPO"/qbe/*.h "$REPO"/qbe/*/*.c "$REPO"/qbe/*/*.h 2>/dev/null | sha1sum | cut -c1-16)
export CGO_CFLAGS="-g -O2 -DVERIF_SRC_HASH=$qh"
( cd $REPO && go build -tags verif -o $TC/bin/ferret . && ( git checkout -- go.sum 2>/dev/null || true ) )
( cd $TC/obj && ls $REPO/runtime/core/*.c $REPO/runtime/libs/*.c | xargs -P 8 -I{} gcc -std=c99 -O2 -w -fno-pie -I $REPO/runtime/core -I $REPO/runtime/libs -c {} && ar rcs $TC/libs/libferret_runtime.a *.o )
cp -r $REPO/ferret_libs/. $TC/libs/; rm -f $TC/libs/embed.go
cat > $TC/f <<'EOS'
#!/bin/bash
FERRET_LIBS_PATH=/dev/shm/devtc/libs exec /dev/shm/devtc/bin/ferret "$@"
EOS
chmod +x $TC/f; echo built $TC
