#!/bin/bash
# usage: recheck_seeds.sh [tier] — applies every kept seeded change to /repo in turn, runs the property's check, reverts; prints one line per seed
tier="${1:-quick}"
cd /verif
for d in seeded/*/; do
  n=$(basename $d); id=${n%%-*}
  [ -f "$d/patch.diff" ] || continue
  cp "$d/patch.diff" /dev/shm/recheck.diff
  out=$(TAIL=2 tools/try_seed.sh $id /dev/shm/recheck.diff $tier 2>&1 | tail -1)
  echo "$n: $out"
done
rm -f /dev/shm/recheck.diff
