#!/usr/bin/env python3
# usage: showcase.py <case dir> [context]  — prints the violation message head and the source lines named by diagnostics
import json,sys,re
d=sys.argv[1]; ctx=int(sys.argv[2]) if len(sys.argv)>2 else 2
c=json.load(open(d+'/case.json'))
m=c['message']
i=m.find('--- program ---')
head=m[:i] if i>=0 else m
print(head[:600].split('\n')[0])
src=c['case'].get('src') or ''
lines=src.split('\n')
shown=set()
for mm in re.finditer(r'main\.fer:(\d+):(\d+)',head):
    ln=int(mm.group(1))
    if ln in shown: continue
    shown.add(ln)
    # find the diagnostic header before it
    pre=head[:mm.start()].rstrip().split('\n')[-1]
    print('  ',pre.strip()[:150])
    for k in range(max(1,ln-ctx),min(len(lines),ln+ctx)+1):
        print('   %s%4d | %s'%('>' if k==ln else ' ',k,lines[k-1][:200]))
if not shown:
    print(head[:1500])
