#!/bin/bash
# usage: keep_seed.sh <ID> <name> '<confirm json>' '<detected-by text>' — stores /tmp/wt/<ID>-out as /verif/seeded/<name>/ and removes the scratch worktree
set -u
id="$1"; name="$2"; conf="$3"; det="$4"
dst="/verif/seeded/$name"; mkdir -p "$dst"
cp -r /tmp/wt/$id-out/. "$dst/"
python3 - "$dst/meta.json" "$conf" "$det" <<'PY'
import json,sys
p,conf,det=sys.argv[1:4]
try: m=json.load(open(p))
except Exception: m={}
m['confirmed_by_main_session']=json.loads(conf)
m['detection']=det
json.dump(m,open(p,'w'),indent=1)
PY
git -C /repo worktree remove --force /tmp/wt/$id 2>/dev/null
rm -rf /tmp/wt/$id-out /tmp/wt/$id-tc /tmp/wt/$id-proj /tmp/wt/$id-*.log
echo kept $dst
