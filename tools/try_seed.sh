#!/bin/bash
# usage: try_seed.sh <ID> <patch.diff> [tier]   — applies a seeded change to /repo, runs the check, reverts.
set -u
id="$1"; patch="$2"; tier="${3:-quick}"
cd /repo || exit 2
git diff --quiet || { echo "/repo has uncommitted changes"; exit 2; }
git apply "$patch" || { echo "patch does not apply"; exit 2; }
( cd /verif && ./verif.sh "$id" "$tier" ) 2>&1 | cut -c1-400 | tail -${TAIL:-15}
rc=${PIPESTATUS[0]}
git -C /repo checkout -- . ; git -C /repo clean -fdq -- internal toml runtime 2>/dev/null
echo "check rc=$rc"
