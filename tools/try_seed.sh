#!/bin/bash
# usage: try_seed.sh <ID> <patch.diff> [tier]   — applies a seeded change to /repo, runs the check, reverts.
set -u
id="$1"; patch="$(readlink -f "$2")"; tier="${3:-quick}"
cd /repo || exit 2
[ -z "$(git status --porcelain --untracked-files=no)" ] || { echo "/repo has uncommitted changes"; exit 2; }
if ! git apply "$patch" 2>/dev/null; then
  git apply --3way "$patch" >/dev/null 2>&1 || { echo "patch does not apply (even 3-way)"; git reset -q --hard; exit 2; }
  git reset -q            # unstage, keep working-tree change
  git diff > "$patch.rebased"; cp "$patch.rebased" "$patch"
  echo "(patch rebased onto current /repo HEAD)"
fi
( cd /verif && ./verif.sh "$id" "$tier" ) 2>&1 | cut -c1-400 | tail -${TAIL:-15}
rc=${PIPESTATUS[0]}
git -C /repo checkout -q -- . ; git -C /repo clean -fdq -- internal toml runtime 2>/dev/null
rm -f "$patch.rebased"; git -C /verif checkout -q -- "evidence/$id.json" 2>/dev/null
echo "check rc=$rc"
