#!/bin/bash
# usage: reduce.sh <case dir> [vkey] — line-based reduction of a program case keeping the violation key (development aid)
set -u
dir="$(readlink -f "$1")"; key="${2:-}"
VERIF=/verif
export GOFLAGS=-mod=mod GOPROXY=off CGO_ENABLED=1 VERIF_DIR=/verif VERIF_REPO=/repo
S=$(mktemp -d /dev/shm/reduce.XXXX); trap 'rm -rf $S' EXIT
H=$S/harness; mkdir -p $H; cp -r $VERIF/harness/. $H/; cat /repo/go.sum >> $H/go.sum 2>/dev/null
TC=$S/tc; mkdir -p $TC/bin $TC/libs $TC/obj
export CGO_CFLAGS="-g -O2 -DVERIF_SRC_HASH=$(cat /repo/qbe/*.c /repo/qbe/*.h /repo/qbe/*/*.c /repo/qbe/*/*.h 2>/dev/null | sha1sum | cut -c1-16)"
(cd /repo && go build -tags verif -o $TC/bin/ferret .) || exit 2
(cd $TC/obj && ls /repo/runtime/core/*.c /repo/runtime/libs/*.c | xargs -P 8 -I{} gcc -std=c99 -O2 -w -fno-pie -I /repo/runtime/core -I /repo/runtime/libs -c {} && ar rcs $TC/libs/libferret_runtime.a *.o)
cp -r /repo/ferret_libs/. $TC/libs/
(cd $H && go build -tags verif -o $TC/bin/ferretd ./cmd/ferretd && go test -tags verif -c -o $S/props.test ./props) || exit 2
VERIF_TOOLCHAIN=$TC VERIF_REDUCE="$dir" VERIF_REDUCE_KEY="$key" VERIF_SCRATCH_DIR=$S/w $S/props.test -test.run '^TestReduce$' -test.timeout=20m 2>&1 | sed -n '/^REDUCED:/,$p' | grep -v "^PASS\|^ok"
