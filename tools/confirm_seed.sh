#!/bin/bash
# usage: confirm_seed.sh <ID> [outdir-suffix]  — confirms a sub-agent's seeded change in its scratch worktree /tmp/wt/<ID>:
# builds, runs the existing suite, runs the demo with and without the patch. Prints a JSON line.
set -u
id="$1"; wt="/tmp/wt/$id"; out="/tmp/wt/$id-out"
export GOFLAGS=-mod=mod GOPROXY=off
cd "$wt" || exit 2
git checkout -q -- . 2>/dev/null; git clean -fdq 2>/dev/null
git apply "$out/patch.diff" || { echo "patch does not apply to worktree"; exit 2; }
b=false; t=false; df=false; dp=false
go build ./... >/dev/null 2>&1 && b=true
go test -vet=off -count=1 ./... >/tmp/wt/$id-test.log 2>&1 && t=true
( cd "$out" && timeout 900 bash ./run_demo.sh "$wt" ) >/tmp/wt/$id-demo1.log 2>&1; [ $? -ne 0 ] && df=true
git apply -R "$out/patch.diff"
( cd "$out" && timeout 900 bash ./run_demo.sh "$wt" ) >/tmp/wt/$id-demo0.log 2>&1; [ $? -eq 0 ] && dp=true
git checkout -q -- . ; git clean -fdq
echo "{\"build_ok\":$b,\"tests_ok\":$t,\"demo_fails_with_patch\":$df,\"demo_passes_without_patch\":$dp}"
