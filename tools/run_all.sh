#!/bin/bash
# usage: run_all.sh [tier] [ids...] — runs the registered checks sequentially on the current /repo, prints a summary
tier="${1:-quick}"; shift
ids="$*"
[ -z "$ids" ] && ids=$(python3 -c "import json;print(' '.join(c['property_id'] for c in json.load(open('/verif/MANIFEST.json'))['checks']))")
cd /verif
for id in $ids; do
  s=$(date +%s)
  out=$(./verif.sh $id $tier 2>&1); rc=$?
  e=$(date +%s)
  echo "== $id rc=$rc $((e-s))s :: $(echo "$out" | grep -c '^VIOLATION') violations, $(echo "$out" | grep -c '^KNOWN-FINDING') known :: $(echo "$out" | grep 'evaluations=' | sed 's/.*evaluations=/evaluations=/' | cut -c1-90)"
  [ $rc -ne 0 ] && echo "$out" | head -8
done
