#!/bin/bash
# Driver of every check.  Usage:
#   verif.sh setup
#   verif.sh <ID> quick|thorough
#   verif.sh replay <dir>             re-decide one saved case without rapid
# Exit: 0 property held on everything explored (KNOWN-FINDING lines allowed)
#       1 VIOLATION property=<id> replay=<path>
#       2 infrastructure failure (could not build / run)
set -u
VERIF="$(cd "$(dirname "${BASH_SOURCE[0]}")" && pwd)"
REPO="${VERIF_REPO:-/repo}"
export GOFLAGS=-mod=mod GOPROXY=off
unset GOSUMDB 2>/dev/null   # must stay default: /repo/go.mod's toolchain switch depends on it
export CGO_ENABLED=1
export VERIF_DIR="$VERIF" VERIF_REPO="$REPO"
NPROC=$(nproc 2>/dev/null || echo 4)
NSHARDS="${VERIF_SHARDS:-$(( NPROC > 3 ? NPROC - 2 : 1 ))}"
SEED="${VERIF_SEED:-1}"
case "$SEED" in ''|*[!0-9]*) SEED=1;; esac
[ "$SEED" = 0 ] && SEED=1

log() { echo "[verif] $*" >&2; }
die2() { log "INFRA: $*"; exit 2; }

mk_scratch() {
  local base="${VERIF_SCRATCH:-/dev/shm}"
  [ -d "$base" ] && [ -w "$base" ] || base="${TMPDIR:-/var/tmp}"
  S="$(mktemp -d "$base/verif.XXXXXX")" || die2 "mktemp"
  trap 'rm -rf "$S"' EXIT
  trap 'exit 2' INT TERM
}

# harness module must see /repo (or VERIF_REPO) through its replace line
prep_harness() {
  H="$S/harness"
  mkdir -p "$H"
  cp -r "$VERIF/harness/." "$H/"
  rm -rf "$H"/*/testdata/rapid "$H"/testdata
  sed -i "s#^replace compiler => .*#replace compiler => $REPO#" "$H/go.mod"
  [ -f "$REPO/go.sum" ] && cat "$REPO/go.sum" >> "$H/go.sum"
  return 0
}

build_ferret() {
  TC="$S/tc"
  # The QBE C sources are #included from outside the cgo package directory, so Go's build
  # cache does not see edits to them: make their content part of the cgo cache key.
  local qh; qh=$(cat "$REPO"/qbe/*.c "$REPO"/qbe/*.h "$REPO"/qbe/*/*.c "$REPO"/qbe/*/*.h 2>/dev/null | sha1sum | cut -c1-16)
  export CGO_CFLAGS="-g -O2 -DVERIF_SRC_HASH=$qh"
  mkdir -p "$TC/bin" "$TC/libs" "$TC/obj"
  ( cd "$REPO" && go build -tags verif -o "$TC/bin/ferret" . ) >"$S/build.log" 2>&1 || { cat "$S/build.log" >&2; die2 "go build of $REPO failed"; }
  # go build with -mod=mod may touch go.sum of the repo; never leave that behind
  ( cd "$REPO" && git status --porcelain go.sum 2>/dev/null | grep -q . && git checkout -- go.sum 2>/dev/null )
  ( cd "$TC/obj" && ls "$REPO"/runtime/core/*.c "$REPO"/runtime/libs/*.c | \
      xargs -P "$NPROC" -I{} gcc -std=c99 -O2 -w -fno-pie -I "$REPO/runtime/core" -I "$REPO/runtime/libs" -c {} ) >>"$S/build.log" 2>&1 \
      || { cat "$S/build.log" >&2; die2 "runtime C build failed"; }
  ( cd "$TC/obj" && ar rcs "$TC/libs/libferret_runtime.a" *.o ) || die2 "ar failed"
  cp -r "$REPO"/ferret_libs/. "$TC/libs/"
  rm -f "$TC/libs/embed.go"
  cp "$REPO/runtime/wasm/runtime.js" "$TC/runtime.mjs" 2>/dev/null || true
  cp "$VERIF/js/runner.mjs" "$TC/runner.mjs" 2>/dev/null || true
  export VERIF_TOOLCHAIN="$TC"
}

build_cdrv() { # $1 = bigint|maparr
  mkdir -p "$TC/cdrv"
  local san="-fsanitize=address,undefined -fno-sanitize-recover=undefined -fno-omit-frame-pointer -g -O1"
  case "$1" in
    bigint)
      clang $san -std=gnu99 -w -I "$REPO/runtime/core" -o "$TC/cdrv/bigint_drv" "$VERIF/cdrv/bigint_drv.c" "$REPO/runtime/core/bigint.c" -lm \
        >>"$S/build.log" 2>&1 || { cat "$S/build.log" >&2; die2 "bigint driver build failed"; }
      clang $san -std=gnu99 -w -U__SIZEOF_INT128__ -I "$REPO/runtime/core" -o "$TC/cdrv/bigint_drv32" "$VERIF/cdrv/bigint_drv.c" "$REPO/runtime/core/bigint.c" -lm \
        >>"$S/build.log" 2>&1 || { cat "$S/build.log" >&2; die2 "bigint (32-bit limb) driver build failed"; } ;;
    maparr)
      clang $san -std=gnu99 -w -I "$REPO/runtime/core" -I "$REPO/runtime/libs" -o "$TC/cdrv/maparr_drv" "$VERIF/cdrv/maparr_drv.c" \
        "$REPO/runtime/core/map.c" "$REPO/runtime/core/array.c" "$REPO/runtime/core/optional.c" "$REPO/runtime/core/alloc.c" \
        "$REPO/runtime/libs/len.c" "$REPO/runtime/libs/append.c" "$REPO/runtime/libs/panic.c" "$REPO/runtime/core/string_runtime.c" -lm \
        >>"$S/build.log" 2>&1 || { cat "$S/build.log" >&2; die2 "maparr driver build failed"; } ;;
  esac
}

build_tests() {
  ( cd "$H" && go test -tags verif -c -o "$S/props.test" ./props ) >>"$S/build.log" 2>&1 || { cat "$S/build.log" >&2; die2 "harness build failed"; }
  ( cd "$H" && go build -tags verif -o "$TC/bin/ferretd" ./cmd/ferretd ) >>"$S/build.log" 2>&1 || { cat "$S/build.log" >&2; die2 "ferretd build failed"; }
  ( cd "$H" && go build -o "$S/merge" ./cmd/merge ) >>"$S/build.log" 2>&1 || { cat "$S/build.log" >&2; die2 "merge tool build failed"; }
}

# per property: checks per shard (quick thorough), extra build needs
conf() {
  case "$1" in
    C01) Q=40   T=400 ;;
    C02) Q=35   T=350 ;;
    C03) Q=150  T=2000 ;;
    C04) Q=50   T=700 ;;
    C05) Q=60   T=900 ;;
    C06) Q=150  T=2000 ;;
    C07) Q=50   T=600 ;;
    C08) Q=40   T=600 ;;
    C09) Q=40   T=400 ;;
    C10) Q=15   T=300 ;;
    C11) Q=6    T=150 ;;
    C12) Q=100  T=1200 ;;
    C13) Q=1200 T=12000 ;;
    C14) Q=20   T=250 ;;
    C15) Q=20   T=300 ;;
    C16) Q=3000 T=60000; NEED=bigint ;;
    C17) Q=300  T=8000;  NEED=maparr ;;
    C18) Q=2000 T=20000 ;;
    C19) Q=60   T=800 ;;
    C20) Q=3000 T=200000 ;;
    *) die2 "unknown property $1" ;;
  esac
}

run_replays() { # $1=id ; runs all saved cases of the property; sets REPLAY_RC
  local id="$1" dirs=""
  for d in "$VERIF"/replays/"$id"/*/; do [ -f "$d/case.json" ] && dirs="$dirs${dirs:+:}${d%/}"; done
  REPLAY_RC=0
  [ -z "$dirs" ] && return 0
  mkdir -p "$S/replay"
  VERIF_PROP="$id" VERIF_REPLAY="$dirs" VERIF_SCRATCH_DIR="$S/replay" VERIF_TIER="$TIER" \
    "$S/props.test" -test.run '^TestReplay$' -test.timeout=30m >"$S/replay.log" 2>&1
  local rc=$?
  # lines: REPLAY <dir> <expect> <outcome> <vkey> :: <msg>
  while IFS= read -r line; do
    set -- $line
    local dir="$2" expect="$3" outcome="$4"
    local what="${line#*:: }"
    if [ "$expect" = fail ] && [ "$outcome" = fail ]; then
      echo "KNOWN-FINDING: property=$id $what"
    elif [ "$expect" = fail ] && [ "$outcome" = pass ]; then
      log "note: known finding $(basename "$dir") no longer reproduces"
    elif [ "$expect" = pass ] && [ "$outcome" = fail ]; then
      echo "VIOLATION property=$id replay=$dir"
      log "replayed case fails: $what"
      REPLAY_RC=1
    elif [ "$outcome" = infra ]; then
      log "replay infra trouble in $dir: $what"
      [ "$REPLAY_RC" = 0 ] && REPLAY_RC=2
    fi
  done < <(grep '^REPLAY ' "$S/replay.log")
  if [ $rc -ne 0 ] && ! grep -q '^REPLAY ' "$S/replay.log"; then cat "$S/replay.log" >&2; REPLAY_RC=2; fi
  REPLAYS_RUN=$(grep -c '^REPLAY ' "$S/replay.log")
}

run_shard() { # id k checks
  local id="$1" k="$2" n="$3" d="$S/sh$2"
  mkdir -p "$d"
  ( cd "$d" && VERIF_PROP="$id" VERIF_SHARD="$k" VERIF_NSHARDS="$NSHARDS" VERIF_SEED="$SEED" VERIF_TIER="$TIER" \
      VERIF_SCRATCH_DIR="$d/w" VERIF_STATS="$d/stats.json" VERIF_FAILDIR="$d/fail" VERIF_REQUESTED="$n" \
      "$S/props.test" -test.run '^TestCampaign$' -test.timeout=0 -rapid.checks="$n" -rapid.seed=$(( SEED * 1000 + k + 1 )) \
      -rapid.shrinktime="${VERIF_SHRINKTIME:-60s}" -rapid.nofailfile >"$d/log" 2>&1 )
  echo $? >"$d/rc"
}

main_check() {
  local id="$1"; TIER="$2"
  local t0=$(date +%s.%N)
  NEED=""
  conf "$id"
  local n=$Q; [ "$TIER" = thorough ] && n=$T
  [ -n "${VERIF_CHECKS:-}" ] && n="$VERIF_CHECKS"
  mk_scratch
  prep_harness
  build_ferret
  [ -n "$NEED" ] && build_cdrv "$NEED"
  build_tests
  mkdir -p "$VERIF/evidence"
  REPLAYS_RUN=0
  run_replays "$id"
  local viol=0
  [ "$REPLAY_RC" = 1 ] && viol=1
  [ "$REPLAY_RC" = 2 ] && die2 "replay tier could not run"

  local k
  for k in $(seq 0 $((NSHARDS-1))); do run_shard "$id" "$k" "$n" & done
  wait
  # thorough-only fuzz engines (native go fuzz / libFuzzer) are run by the test binary's TestFuzzTier via driver hooks
  if [ "$TIER" = thorough ] && [ -x "$VERIF/fuzz/run_$id.sh" ] && [ "${VERIF_NOFUZZ:-0}" != 1 ]; then
    VERIF_S="$S" VERIF_H="$H" VERIF_DIR="$VERIF" VERIF_REPO="$REPO" VERIF_SEED="$SEED" bash "$VERIF/fuzz/run_$id.sh" >"$S/fuzz.log" 2>&1
    local frc=$?
    if [ $frc -eq 1 ]; then grep '^VIOLATION ' "$S/fuzz.log"; grep -v '^VIOLATION ' "$S/fuzz.log" | head -8 >&2; viol=1
    elif [ $frc -ne 0 ]; then tail -20 "$S/fuzz.log" >&2; log "fuzz engine inconclusive (rc=$frc): its result is not part of the verdict"; fi
    [ -f "$S/fuzz_stats.json" ] && FUZZ_STATS="$S/fuzz_stats.json"
  fi

  local infra=0 seenkeys=" "
  for k in $(seq 0 $((NSHARDS-1))); do
    local d="$S/sh$k" rc; rc=$(cat "$d/rc" 2>/dev/null || echo 99)
    if [ "$rc" != 0 ]; then
      if [ -f "$d/fail/case.json" ]; then
        local vk; vk=$(python3 -c "import json;print(json.load(open('$d/fail/case.json')).get('vkey') or 'x')" 2>/dev/null | tr -c 'A-Za-z0-9_.\n-' '_')
        viol=1
        case "$seenkeys" in *" $vk "*) continue;; esac
        seenkeys="$seenkeys$vk "
        local dst="$VERIF/found/$id/${vk}-s${SEED}-k${k}"
        rm -rf "$dst"; mkdir -p "$dst"; cp -r "$d/fail/." "$dst/"
        grep -E 'rapid|panic|---' "$d/log" | head -20 >"$dst/rapid.log"
        echo "VIOLATION property=$id replay=$dst"
        log "$(head -c 400 "$dst/observed.txt")"
      else
        log "shard $k exited $rc without a recorded case:"; grep -v "rapid\] draw" "$d/log" | tail -25 >&2
        infra=1
      fi
    fi
  done
  local t1=$(date +%s.%N)
  "$S/merge" -id "$id" -tier "$TIER" -seed "$SEED" -violations "$viol" -wall "$(echo "$t1 - $t0" | bc)" \
      -replays "$REPLAYS_RUN" -out "$VERIF/evidence/$id.json" "$S"/sh*/stats.json ${FUZZ_STATS:-} || infra=1
  [ -f "$S/fuzz_stats.json" ] && true
  [ $viol -eq 1 ] && exit 1
  [ $infra -eq 1 ] && die2 "a shard failed for reasons other than the property"
  exit 0
}

case "${1:-}" in
  setup)
    mk_scratch; prep_harness; build_ferret; build_cdrv bigint; build_cdrv maparr; build_tests
    log "setup ok"; exit 0 ;;
  replay)
    [ -d "${2:-}" ] || die2 "usage: verif.sh replay <dir>"
    dir="$(cd "$2" && pwd)"
    id=$(python3 -c "import json,sys;print(json.load(open('$dir/case.json'))['property'])") || die2 "bad case"
    # inputs saved by the libFuzzer engines are replayed by rebuilding that target
    if python3 -c "import json,sys;sys.exit(0 if json.load(open('$dir/case.json')).get('engine','').startswith('libfuzzer:') else 1)"; then
      VERIF_DIR="$VERIF" VERIF_REPO="$REPO" bash "$VERIF/fuzz/replay_libfuzzer.sh" "$dir"; exit $?
    fi
    TIER=quick; NEED=""; conf "$id"
    mk_scratch; prep_harness; build_ferret; [ -n "$NEED" ] && build_cdrv "$NEED"; build_tests
    mkdir -p "$S/replay"
    VERIF_PROP="$id" VERIF_REPLAY="$dir" VERIF_REPLAY_FORCE=pass VERIF_SCRATCH_DIR="$S/replay" "$S/props.test" -test.run '^TestReplay$' -test.v 2>&1 | tee "$S/replay.log" | grep -v '^=== \|^--- \|^PASS\|^ok'
    # fields: REPLAY <dir> <expected> <outcome> <key> :: <what>
    if awk '$1=="REPLAY" && $4=="fail"{f=1} END{exit f?0:1}' "$S/replay.log"; then echo "VIOLATION property=$id replay=$dir"; exit 1; fi
    if awk '$1=="REPLAY" && $4=="infra"{f=1} END{exit f?0:1}' "$S/replay.log"; then exit 2; fi
    exit 0 ;;
  C[0-9][0-9])
    main_check "$1" "${2:-${VERIF_TIER:-quick}}" ;;
  *) echo "usage: verif.sh setup | <ID> quick|thorough | replay <dir>" >&2; exit 2 ;;
esac
